// Command instrument rewrites a scratch copy of the library for simulation.
//
//	instrument [-pristine] <dir>
//
// It type-checks the module in <dir> and applies pure text insertions (never
// re-printing the AST, so line numbers are preserved):
//
//   - `verifsim_.Yield(<site>); ` before every statement of every block, case
//     clause and comm clause;
//   - `range m` over a map   →  `range verifsim_.Ordered(m, <site>)`;
//   - `v.MapKeys()` (reflect) →  `verifsim_.OrderedReflectKeys(v.MapKeys(), <site>)`;
//   - statement-level sync Lock/Unlock/Do bracketed by verifsim_.NoPreempt.
//
// and writes <dir>/verifsim/sites_gen.go (site tables) and prints a JSON census
// of constructs the simulator does not own. With -pristine only the (empty)
// site table is written and the census is printed.
package main

import (
	"encoding/json"
	"flag"
	"fmt"
	"go/ast"
	"go/token"
	"go/types"
	"os"
	"path/filepath"
	"sort"
	"strings"

	"golang.org/x/tools/go/packages"
)

const simPath = "github.com/vektah/gqlparser/v2/verifsim"

type edit struct {
	off  int
	seq  int
	text string
	del  int // bytes removed at off before text is inserted
}

type site struct {
	ID   int    `json:"id"`
	Kind string `json:"kind"`
	Name string `json:"name"`
}

type censusHit struct {
	What string `json:"what"`
	Pos  string `json:"pos"`
	// Class: "concurrency" (go/chan/select/sync in expression position),
	// "nondeterminism" (time, rand, env, unordered iteration we cannot wrap)
	Class string `json:"class"`
}

type report struct {
	Sites      int         `json:"sites"`
	Yields     int         `json:"yields"`
	MapRanges  []string    `json:"map_ranges"`
	WeakSites  []string    `json:"weak_sites"`
	Census     []censusHit `json:"census"`
	Files      int         `json:"files"`
	ClockSites int         `json:"clock_sites"` // time.Now/Since/Until/Sleep calls put behind the simulated clock
	CondSites  int         `json:"cond_sites"`  // sync.Cond Wait/Signal/Broadcast calls routed through the simulator
	SyncSites  int         `json:"sync_sites"`  // yield points just before / after a statement that calls into sync or sync/atomic
	RandSites  int         `json:"rand_sites"`  // math/rand package-level calls put behind the simulated source
}

var (
	sites   []site
	lineOrd = map[string]int{}
	rep     report
	root    string
)

func rel(fn string) string {
	r, err := filepath.Rel(root, fn)
	if err != nil {
		return fn
	}
	return r
}

func newSite(fset *token.FileSet, pos token.Pos, kind string) int {
	p := fset.Position(pos)
	key := fmt.Sprintf("%s:%d", rel(p.Filename), p.Line)
	lineOrd[key]++
	id := len(sites)
	sites = append(sites, site{id, kind, fmt.Sprintf("%s#%d/%s", key, lineOrd[key], kind)})
	return id
}

func isOrderedKey(t types.Type) bool {
	b, ok := t.Underlying().(*types.Basic)
	if !ok {
		return false
	}
	return b.Info()&(types.IsInteger|types.IsFloat|types.IsString) != 0
}

func namedIs(t types.Type, pkg, name string) bool {
	if p, ok := t.(*types.Pointer); ok {
		t = p.Elem()
	}
	n, ok := t.(*types.Named)
	if !ok || n.Obj().Pkg() == nil {
		return false
	}
	return n.Obj().Pkg().Path() == pkg && n.Obj().Name() == name
}

func main() {
	pristine := flag.Bool("pristine", false, "do not rewrite, only census + empty site table")
	flag.Parse()
	if flag.NArg() != 1 {
		fmt.Fprintln(os.Stderr, "usage: instrument [-pristine] <dir>")
		os.Exit(2)
	}
	var err error
	root, err = filepath.Abs(flag.Arg(0))
	if err != nil {
		panic(err)
	}
	cfg := &packages.Config{Mode: packages.NeedName | packages.NeedFiles | packages.NeedSyntax | packages.NeedTypes | packages.NeedTypesInfo | packages.NeedImports | packages.NeedDeps, Dir: root}
	pkgs, err := packages.Load(cfg, "./...")
	if err != nil {
		fmt.Fprintln(os.Stderr, "instrument: load:", err)
		os.Exit(2)
	}
	sort.Slice(pkgs, func(i, j int) bool { return pkgs[i].PkgPath < pkgs[j].PkgPath })
	bad := false
	for _, p := range pkgs {
		for _, e := range p.Errors {
			fmt.Fprintln(os.Stderr, "instrument: type error:", e)
			bad = true
		}
	}
	if bad {
		os.Exit(2)
	}
	for _, p := range pkgs {
		if strings.HasSuffix(p.PkgPath, "/verifsim") || strings.Contains(p.PkgPath, "/zz_verif") || strings.Contains(p.PkgPath, "testrunner") {
			continue
		}
		files := append([]*ast.File{}, p.Syntax...)
		sort.Slice(files, func(i, j int) bool {
			return p.Fset.Position(files[i].Package).Filename < p.Fset.Position(files[j].Package).Filename
		})
		for _, f := range files {
			fn := p.Fset.Position(f.Package).Filename
			if strings.HasSuffix(fn, "_test.go") {
				continue
			}
			rep.Files++
			instrumentFile(p, f, fn, *pristine)
		}
	}
	rep.Sites = len(sites)
	if *pristine {
		sites = nil
	}
	writeSites()
	out, _ := json.MarshalIndent(rep, "", " ")
	fmt.Println(string(out))
}

func instrumentFile(p *packages.Package, f *ast.File, fn string, pristine bool) {
	fset := p.Fset
	info := p.TypesInfo
	fileSrc, _ := os.ReadFile(fn)
	var edits []edit
	add := func(pos token.Pos, text string) {
		edits = append(edits, edit{fset.Position(pos).Offset, len(edits), text, 0})
	}
	keepAlive := map[string]bool{}
	nonBlocking := map[ast.Node]bool{}
	// replace the package-qualified function name of a call (e.g. time.Now) by a
	// simulator function; the import stays used through a dummy reference
	replaceSel := func(sel *ast.SelectorExpr, with, keep string) {
		o, e := fset.Position(sel.Pos()).Offset, fset.Position(sel.End()).Offset
		edits = append(edits, edit{o, len(edits), with, e - o})
		keepAlive[keep] = true
	}
	census := func(n ast.Node, class, what string) {
		pp := fset.Position(n.Pos())
		rep.Census = append(rep.Census, censusHit{what, fmt.Sprintf("%s:%d", rel(pp.Filename), pp.Line), class})
	}
	// hash/maphash cannot be replayed (per-process keys, runtime-random seeds):
	// the import is redirected to a stand-in with the same API that draws its
	// seeds from the simulated randomness
	for _, im := range f.Imports {
		if im.Path.Value == `"hash/maphash"` {
			o, e := fset.Position(im.Path.Pos()).Offset, fset.Position(im.Path.End()).Offset
			edits = append(edits, edit{o, len(edits), fmt.Sprintf("%q", simPath+"/maphash"), e - o})
			keepAlive["verifsim_.Yield"] = true
			census(im, "owned-random", "hash/maphash (simulated seeds, fixed hash function)")
			rep.RandSites++
		}
	}
	// statements whose sync call is at statement level (handled, not census)
	handledSync := map[ast.Node]bool{}
	syncMethod := func(call *ast.CallExpr) (string, bool) {
		sel, ok := call.Fun.(*ast.SelectorExpr)
		if !ok {
			return "", false
		}
		s := info.Selections[sel]
		if s == nil {
			return "", false
		}
		fnObj, ok := s.Obj().(*types.Func)
		if !ok || fnObj.Pkg() == nil || fnObj.Pkg().Path() != "sync" {
			return "", false
		}
		return fnObj.Name(), true
	}
	// touchesSync: the statement itself (not the bodies nested in it) calls
	// into package sync or sync/atomic. The yield points just before and just
	// after such a statement are where atomicity violations open their windows
	// ("checked under the read lock, acted under the write lock"; "marker
	// published, contents not yet"), so they get a site kind of their own and
	// some runs preempt nowhere else.
	touchesSync := func(st ast.Stmt) bool {
		found := false
		var visit func(n ast.Node) bool
		visit = func(n ast.Node) bool {
			if found || n == nil {
				return false
			}
			switch x := n.(type) {
			case *ast.BlockStmt, *ast.FuncLit:
				return false
			case *ast.CallExpr:
				if sel, ok := x.Fun.(*ast.SelectorExpr); ok {
					if sl := info.Selections[sel]; sl != nil {
						if fnObj, ok := sl.Obj().(*types.Func); ok && fnObj.Pkg() != nil && (fnObj.Pkg().Path() == "sync" || fnObj.Pkg().Path() == "sync/atomic") {
							found = true
						}
					} else if id, ok := sel.X.(*ast.Ident); ok {
						if pn, ok := info.Uses[id].(*types.PkgName); ok && (pn.Imported().Path() == "sync/atomic" || pn.Imported().Path() == "sync") {
							found = true
						}
					}
				}
			}
			return !found
		}
		switch x := st.(type) {
		case *ast.IfStmt:
			if x.Init != nil {
				ast.Inspect(x.Init, visit)
			}
			ast.Inspect(x.Cond, visit)
		case *ast.ForStmt, *ast.RangeStmt, *ast.SwitchStmt, *ast.TypeSwitchStmt, *ast.SelectStmt, *ast.BlockStmt, *ast.LabeledStmt:
			// headers of loops and switches: not worth the special case
		default:
			ast.Inspect(st, visit)
		}
		return found
	}
	stmts := func(list []ast.Stmt, firstKind string) {
		prevSync := false
		for i, st := range list {
			switch st.(type) {
			case *ast.CaseClause, *ast.CommClause:
				continue
			}
			kind := "stmt"
			if i == 0 && firstKind != "" {
				kind = firstKind
			}
			thisSync := touchesSync(st)
			if thisSync || prevSync {
				kind = "sync"
				rep.SyncSites++
			}
			prevSync = thisSync
			add(st.Pos(), fmt.Sprintf("verifsim_.Yield(%d); ", newSite(fset, st.Pos(), kind)))
			rep.Yields++
			// sync bracketing
			switch x := st.(type) {
			case *ast.ExprStmt:
				if call, ok := x.X.(*ast.CallExpr); ok {
					if name, ok := syncMethod(call); ok {
						switch name {
						case "Lock", "RLock":
							add(st.Pos(), "verifsim_.NoPreempt(1); ")
							handledSync[call] = true
						case "Unlock", "RUnlock":
							add(st.End(), "; verifsim_.NoPreempt(-1)")
							handledSync[call] = true
						case "Do":
							add(st.Pos(), "verifsim_.NoPreempt(1); ")
							add(st.End(), "; verifsim_.NoPreempt(-1)")
							handledSync[call] = true
						}
					}
				}
			case *ast.DeferStmt:
				if name, ok := syncMethod(x.Call); ok && (name == "Unlock" || name == "RUnlock") {
					add(st.Pos(), "defer verifsim_.NoPreempt(-1); ")
					handledSync[x.Call] = true
				}
			}
		}
	}
	// classify blocks: function bodies and loop bodies
	blockKind := map[*ast.BlockStmt]string{}
	ast.Inspect(f, func(n ast.Node) bool {
		switch n := n.(type) {
		case *ast.FuncDecl:
			if n.Body != nil {
				blockKind[n.Body] = "entry"
			}
		case *ast.FuncLit:
			blockKind[n.Body] = "entry"
		case *ast.ForStmt:
			blockKind[n.Body] = "loop"
		case *ast.RangeStmt:
			blockKind[n.Body] = "loop"
		}
		return true
	})
	ast.Inspect(f, func(n ast.Node) bool {
		switch n := n.(type) {
		case *ast.BlockStmt:
			stmts(n.List, blockKind[n])
		case *ast.CaseClause:
			stmts(n.Body, "")
		case *ast.CommClause:
			stmts(n.Body, "")
		case *ast.RangeStmt:
			t := info.TypeOf(n.X)
			if t == nil {
				break
			}
			switch u := t.Underlying().(type) {
			case *types.Map:
				id := newSite(fset, n.Pos(), "maprange")
				fnName := "Ordered"
				if !isOrderedKey(u.Key()) {
					fnName = "OrderedAny"
					rep.WeakSites = append(rep.WeakSites, sites[id].Name)
				}
				rep.MapRanges = append(rep.MapRanges, sites[id].Name)
				add(n.X.Pos(), "verifsim_."+fnName+"(")
				add(n.X.End(), fmt.Sprintf(", %d)", id))
			case *types.Chan:
				census(n, "concurrency", "range over channel")
			case *types.Signature:
				// range-over-func: fine, body is instrumented like any block
			}
		case *ast.GoStmt:
			census(n, "concurrency", "go statement")
			// counted at run time: C11 only has to refuse when a goroutine is
			// actually spawned inside a simulated operation
			add(n.Pos(), fmt.Sprintf("verifsim_.Unowned(%d); ", newSite(fset, n.Pos(), "go")))
		case *ast.SelectStmt:
			// a select with a default clause never blocks (a buffered channel used
			// as a free list, a non-blocking notification): the serialised schedule
			// stays intact; its communication statements are not census hits
			hasDefault := false
			for _, c := range n.Body.List {
				if cc, ok := c.(*ast.CommClause); ok && cc.Comm == nil {
					hasDefault = true
				}
			}
			if hasDefault {
				for _, c := range n.Body.List {
					if cc, ok := c.(*ast.CommClause); ok && cc.Comm != nil {
						ast.Inspect(cc.Comm, func(m ast.Node) bool {
							if m != nil {
								nonBlocking[m] = true
							}
							return true
						})
					}
				}
				census(n, "nonblocking-channel", "select with default (never blocks)")
			} else {
				census(n, "concurrency", "select")
			}
		case *ast.SendStmt:
			if !nonBlocking[n] {
				census(n, "concurrency", "channel send")
			}
		case *ast.UnaryExpr:
			if n.Op == token.ARROW && !nonBlocking[n] {
				census(n, "concurrency", "channel receive")
			}
		case *ast.CallExpr:
			if id, ok := n.Fun.(*ast.Ident); ok && id.Name == "uintptr" && len(n.Args) == 1 {
				if t := info.TypeOf(n.Args[0]); t != nil && t.String() == "unsafe.Pointer" {
					census(n, "nondeterminism", "uintptr(unsafe.Pointer) (heap address)")
				}
			}
			if sel, ok := n.Fun.(*ast.SelectorExpr); ok {
				// reflect.Value.MapKeys / MapRange
				if s := info.Selections[sel]; s != nil {
					if fnObj, ok := s.Obj().(*types.Func); ok && fnObj.Pkg() != nil {
						switch {
						case fnObj.Pkg().Path() == "reflect" && fnObj.Name() == "MapKeys":
							id := newSite(fset, n.Pos(), "mapkeys")
							rep.MapRanges = append(rep.MapRanges, sites[id].Name)
							add(n.Pos(), "verifsim_.OrderedReflectKeys(")
							add(n.End(), fmt.Sprintf(", %d)", id))
						case fnObj.Pkg().Path() == "reflect" && fnObj.Name() == "MapRange":
							census(n, "nondeterminism", "reflect.Value.MapRange")
						case fnObj.Pkg().Path() == "sync" && namedIs(s.Recv(), "sync", "Cond") && (fnObj.Name() == "Wait" || fnObj.Name() == "Signal" || fnObj.Name() == "Broadcast"):
							// c.Wait() -> verifsim_.CondWait(c): a waiter must let the peer it
							// waits for run (see the runtime package)
							recv := "(" + string(fileSrc[fset.Position(sel.X.Pos()).Offset:fset.Position(sel.X.End()).Offset]) + ")"
							if _, isPtr := info.TypeOf(sel.X).(*types.Pointer); !isPtr {
								recv = "&" + recv
							}
							o, e := fset.Position(n.Pos()).Offset, fset.Position(n.End()).Offset
							edits = append(edits, edit{o, len(edits), "verifsim_.Cond" + fnObj.Name() + "(" + recv + ")", e - o})
							rep.CondSites++
						case fnObj.Pkg().Path() == "sync" && namedIs(s.Recv(), "sync", "Map") && fnObj.Name() == "Range":
							census(n, "nondeterminism", "sync.Map.Range")
						case fnObj.Pkg().Path() == "reflect" && (fnObj.Name() == "Pointer" || fnObj.Name() == "UnsafeAddr" || fnObj.Name() == "UnsafePointer"):
							// a heap address as data: no seam can own it
							census(n, "nondeterminism", "reflect.Value."+fnObj.Name()+" (heap address)")
						}
					}
				}
				// package-qualified calls
				if id, ok := sel.X.(*ast.Ident); ok {
					if pn, ok := info.Uses[id].(*types.PkgName); ok {
						switch path := pn.Imported().Path(); path {
						case "time":
							switch sel.Sel.Name {
							case "Now", "Since", "Until", "Sleep":
								// the clock goes behind the simulator's seam
								replaceSel(sel, "verifsim_.Time"+sel.Sel.Name, id.Name+"."+sel.Sel.Name)
								census(n, "owned-clock", "time."+sel.Sel.Name+" (simulated clock)")
								rep.ClockSites++
							case "After", "AfterFunc", "NewTimer", "NewTicker", "Tick":
								census(n, "nondeterminism", "time."+sel.Sel.Name)
							}
						case "math/rand":
							switch sel.Sel.Name {
							case "Intn", "Int", "Int31", "Int31n", "Int63", "Int63n", "Uint32", "Uint64", "Float64", "Float32", "Perm", "Shuffle":
								replaceSel(sel, "verifsim_.Rand"+sel.Sel.Name, id.Name+"."+sel.Sel.Name)
								census(n, "owned-random", "math/rand."+sel.Sel.Name+" (simulated randomness)")
								rep.RandSites++
							default:
								census(n, "nondeterminism", path+"."+sel.Sel.Name)
							}
						case "math/rand/v2", "crypto/rand":
							census(n, "nondeterminism", path+"."+sel.Sel.Name)
						case "runtime":
							switch sel.Sel.Name {
							case "GOMAXPROCS", "NumCPU", "NumGoroutine":
								census(n, "nondeterminism", "runtime."+sel.Sel.Name)
							case "SetFinalizer":
								// the finalizer runs on a goroutine of the runtime's
								census(n, "concurrency", "runtime.SetFinalizer (finalizer goroutine)")
							}
						case "os":
							switch sel.Sel.Name {
							case "Getenv", "LookupEnv", "Environ", "Getpid", "Hostname":
								census(n, "nondeterminism", "os."+sel.Sel.Name)
							}
						case "maps":
							switch sel.Sel.Name {
							case "Keys", "Values", "All":
								census(n, "nondeterminism", "maps."+sel.Sel.Name+" (unordered iterator)")
							}
						}
					}
				}
			}
		}
		return true
	})
	// Lock/Unlock used as method VALUES (`return mu.Unlock`, `defer once.Do(mu.Unlock)`):
	// the bracket accounting of statement-level Lock()/Unlock() cannot see
	// through them
	callFuns := map[ast.Expr]bool{}
	ast.Inspect(f, func(n ast.Node) bool {
		if call, ok := n.(*ast.CallExpr); ok {
			callFuns[call.Fun] = true
		}
		return true
	})
	ast.Inspect(f, func(n ast.Node) bool {
		if sel, ok := n.(*ast.SelectorExpr); ok && !callFuns[sel] {
			if sl := info.Selections[sel]; sl != nil && sl.Kind() == types.MethodVal {
				if fnObj, ok := sl.Obj().(*types.Func); ok && fnObj.Pkg() != nil && fnObj.Pkg().Path() == "sync" {
					switch fnObj.Name() {
					case "Lock", "RLock", "Unlock", "RUnlock", "TryLock", "TryRLock":
						census(sel, "concurrency", "sync."+fnObj.Name()+" used as a method value")
					}
				}
			}
		}
		return true
	})
	// sync calls not at statement level
	ast.Inspect(f, func(n ast.Node) bool {
		if call, ok := n.(*ast.CallExpr); ok && !handledSync[call] {
			if sel, ok := call.Fun.(*ast.SelectorExpr); ok {
				if sl := info.Selections[sel]; sl != nil && namedIs(sl.Recv(), "sync", "Cond") {
					return true // routed through the simulator
				}
			}
			if name, ok := syncMethod(call); ok {
				switch name {
				case "Lock", "RLock", "Unlock", "RUnlock", "Do", "Wait", "TryLock", "TryRLock":
					census(call, "concurrency", "sync."+name+" not at statement level")
				}
			}
		}
		return true
	})
	if pristine || len(edits) == 0 {
		return
	}
	add(f.Name.End(), fmt.Sprintf("; import verifsim_ %q", simPath))
	sort.Slice(edits, func(i, j int) bool {
		if edits[i].off != edits[j].off {
			return edits[i].off > edits[j].off
		}
		return edits[i].seq > edits[j].seq
	})
	src, err := os.ReadFile(fn)
	if err != nil {
		panic(err)
	}
	for _, e := range edits {
		src = append(src[:e.off], append([]byte(e.text), src[e.off+e.del:]...)...)
	}
	if len(keepAlive) > 0 {
		// rewritten package-qualified calls may leave an import unused
		var ks []string
		for k := range keepAlive {
			ks = append(ks, k)
		}
		sort.Strings(ks)
		for _, k := range ks {
			src = append(src, []byte("\nvar _ = "+k+"\n")...)
		}
	}
	if err := os.WriteFile(fn, src, 0o644); err != nil {
		panic(err)
	}
}

func writeSites() {
	var b strings.Builder
	b.WriteString("// Code generated by /verif/cmd/instrument. DO NOT EDIT.\n\npackage verifsim\n\n")
	b.WriteString("// SiteKinds[id] is the kind bit of yield/map site id.\nvar SiteKinds = []uint8{")
	for i, s := range sites {
		if i%32 == 0 {
			b.WriteString("\n\t")
		}
		k := 4
		switch s.Kind {
		case "entry":
			k = 1
		case "loop":
			k = 2
		case "sync":
			k = 16
		}
		fmt.Fprintf(&b, "%d, ", k)
	}
	b.WriteString("\n}\n\n// SiteNames[id] is file:line#ordinal/kind.\nvar SiteNames = []string{\n")
	for _, s := range sites {
		fmt.Fprintf(&b, "\t%q,\n", s.Name)
	}
	b.WriteString("}\n")
	if err := os.MkdirAll(filepath.Join(root, "verifsim"), 0o755); err != nil {
		panic(err)
	}
	if err := os.WriteFile(filepath.Join(root, "verifsim", "sites_gen.go"), []byte(b.String()), 0o644); err != nil {
		panic(err)
	}
}
