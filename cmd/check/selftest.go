package main

import (
	"crypto/sha256"
	"encoding/json"
	"fmt"
	"os"
	"os/exec"
	"path/filepath"
	"strings"
)

// selftest establishes, before any verdict is believed, that the simulator is
// deterministic and that its oracles can fire:
//
//  1. determinism: N seeds, each executed in three fresh processes at
//     GOMAXPROCS 1, 4 and 16, for C10 (every map-range visit with its
//     permutation, every keyed observation) and for C11 under the race
//     detector (every switch, fault, sample, exit, per-operation result hash,
//     race classes). Complete event logs are compared; any difference exits 2.
//  2. sensitivity of the race oracle: a scratch copy gets one unsynchronised
//     write to a package-level variable inside validator.Validate. The handoff
//     between tasks must be invisible to the race detector, so two tasks that
//     validate must be reported whatever the schedule, and identically in
//     every repetition.
//  3. sensitivity of the map-order seam: a scratch copy whose SuggestionList
//     ranges over its distance map must be reported by C10.
//
// Exit 0 = all of it held; 2 = the machinery cannot be trusted.
func selftest(o options, seeds int) int {
	builds := prepareAll(prepOpts{instrumented: true, name: "inst"}, prepOpts{instrumented: true, race: true, name: "race"})
	inst, race := builds[0], builds[1]
	logf("selftest: built plain and race harness")
	procs := []int{1, 4, 16}
	type job struct {
		prop string
		seed int
		gmp  int
	}
	var jobs []job
	for s := 0; s < seeds; s++ {
		for _, g := range procs {
			jobs = append(jobs, job{"C10", s, g}, job{"C11", s, g})
		}
	}
	res := runProcs(len(jobs), func(i int) (string, []string, []string, string) {
		j := jobs[i]
		of := filepath.Join(scratch, fmt.Sprintf("st-%s-%d-%d.json", j.prop, j.seed, j.gmp))
		env := []string{fmt.Sprintf("GOMAXPROCS=%d", j.gmp)}
		if j.prop == "C10" {
			return inst.bin, []string{"c10", "--seed", fmt.Sprint(1000 + j.seed), "--worker", "0", "--sessions", "24", "--evlog", "--out", of, "--replays", scratch}, env, of
		}
		rlog := filepath.Join(scratch, fmt.Sprintf("st-racelog-%d-%d", j.seed, j.gmp))
		return race.bin, []string{"c11", "--seed", fmt.Sprint(1000 + j.seed), "--worker", "0", "--runs", "5", "--evlog", "--out", of, "--replays", scratch, "--racelog", rlog}, append(env, goraceEnv(rlog)...), of
	})
	digest := map[string]string{}
	lines := map[string]int{}
	bad := 0
	for i, r := range res {
		j := jobs[i]
		if r.err != nil {
			die(2, "selftest: %s seed %d GOMAXPROCS=%d failed:\n%s", j.prop, j.seed, j.gmp, tail(r.stderr, 30))
		}
		var st struct {
			Log        []string          `json:"log"`
			Violations []json.RawMessage `json:"violations"`
		}
		if err := readJSONFile(r.file, &st); err != nil {
			die(2, "selftest: result of %s seed %d: %v", j.prop, j.seed, err)
		}
		if len(st.Violations) > 0 {
			die(2, "selftest: %s seed %d reported a violation on the tree under test; run the check itself first", j.prop, j.seed)
		}
		h := sha256.Sum256([]byte(strings.Join(st.Log, "\n")))
		key := fmt.Sprintf("%s/%d", j.prop, j.seed)
		hs := fmt.Sprintf("%x", h[:8])
		lines[j.prop] += len(st.Log)
		if prev, ok := digest[key]; ok && prev != hs {
			bad++
			logf("selftest: NONDETERMINISM %s seed %d: event-log digest %s at GOMAXPROCS=%d differs from %s", j.prop, j.seed, hs, j.gmp, prev)
		} else {
			digest[key] = hs
		}
	}
	if bad > 0 {
		die(2, "selftest: %d executions differed from another execution of the same seed", bad)
	}
	logf("selftest: determinism ok: %d seeds x %d processes x {C10,C11}; %d C10 and %d C11 event-log lines compared", seeds, len(procs), lines["C10"], lines["C11"])

	// ---- sensitivity: race oracle / handoff ----
	probe := func(dir string) error {
		p := filepath.Join(dir, "validator", "validator.go")
		b, err := os.ReadFile(p)
		if err != nil {
			return err
		}
		src := string(b)
		const anchor = "observers := &Events{}"
		if !strings.Contains(src, anchor) {
			return fmt.Errorf("anchor not found")
		}
		src = strings.Replace(src, anchor, "verifSelftestProbe++\n\t"+anchor, 1) + "\nvar verifSelftestProbe int\n"
		return os.WriteFile(p, []byte(src), 0o644)
	}
	skipped := []string{}
	rb := prepareMutated(prepOpts{instrumented: true, race: true, name: "race-probe"}, probe)
	if rb == nil {
		skipped = append(skipped, "race-oracle probe (anchor in validator/validator.go not found)")
	} else {
		var classes []string
		for rep := 0; rep < 3; rep++ {
			of := filepath.Join(scratch, fmt.Sprintf("st-probe-%d.json", rep))
			rlog := filepath.Join(scratch, fmt.Sprintf("st-probe-racelog-%d", rep))
			out, err := run(scratch, append(os.Environ(), append(goraceEnv(rlog), fmt.Sprintf("GOMAXPROCS=%d", procs[rep]))...), rb.bin, "c11", "--seed", "77", "--worker", "0", "--runs", "3", "--out", of, "--replays", scratch, "--racelog", rlog, "--known", "race:write@validator.Validate")
			if err != nil {
				die(2, "selftest: race probe run failed: %v\n%s", err, tail(out, 20))
			}
			var st struct {
				Violations []struct {
					Class string `json:"class"`
				} `json:"violations"`
			}
			readJSONFile(of, &st)
			var cs []string
			for _, v := range st.Violations {
				cs = append(cs, v.Class)
			}
			classes = append(classes, strings.Join(cs, ","))
		}
		if !strings.Contains(classes[0], "race:write@validator.Validate") {
			die(2, "selftest: an unsynchronised write inside validator.Validate was NOT reported by the race oracle (classes: %q): the task handoff is ordering tasks for the race detector", classes[0])
		}
		if classes[0] != classes[1] || classes[1] != classes[2] {
			die(2, "selftest: race classes differ between repetitions of one seed: %q", classes)
		}
		logf("selftest: race oracle fires on the probe, identically in 3 repetitions (%s)", classes[0])
	}

	// ---- sensitivity: map-order seam ----
	probe2 := func(dir string) error {
		p := filepath.Join(dir, "validator", "suggestionList.go")
		b, err := os.ReadFile(p)
		if err != nil {
			return err
		}
		src := string(b)
		const anchor = "sort.Slice(results, func(i, j int) bool {"
		if !strings.Contains(src, anchor) {
			return fmt.Errorf("anchor not found")
		}
		src = strings.Replace(src, anchor, "results = results[:0]\n\tfor k := range optionsByDistance {\n\t\tresults = append(results, k)\n\t}\n\t"+anchor, 1)
		return os.WriteFile(p, []byte(src), 0o644)
	}
	mb := prepareMutated(prepOpts{instrumented: true, name: "order-probe"}, probe2)
	if mb == nil {
		skipped = append(skipped, "map-order probe (anchor in validator/suggestionList.go not found)")
	} else {
		of := filepath.Join(scratch, "st-order-probe.json")
		out, err := run(scratch, nil, mb.bin, "c10", "--seed", "5", "--worker", "0", "--sessions", "400", "--out", of, "--replays", scratch)
		if err != nil {
			die(2, "selftest: map-order probe run failed: %v\n%s", err, tail(out, 20))
		}
		var st struct {
			Violations []struct {
				Class string `json:"class"`
			} `json:"violations"`
		}
		readJSONFile(of, &st)
		if len(st.Violations) == 0 {
			die(2, "selftest: a suggestion list assembled by ranging over a map was NOT reported within 400 sessions")
		}
		logf("selftest: map-order seam fires on the probe (%s)", st.Violations[0].Class)
	}
	// ---- sensitivity: process-level randomness (hash/maphash seam + process seed) ----
	probe3 := func(dir string) error {
		p := filepath.Join(dir, "validator", "suggestionList.go")
		b, err := os.ReadFile(p)
		if err != nil {
			return err
		}
		src := string(b)
		const anchor = "return optionsByDistance[results[i]] < optionsByDistance[results[j]]"
		const imp = "import (\n"
		if !strings.Contains(src, anchor) || !strings.Contains(src, imp) {
			return fmt.Errorf("anchor not found")
		}
		// ties ranked by a hash under a seed drawn once per process: stable inside
		// any one process, different between processes
		src = strings.Replace(src, anchor, "if optionsByDistance[results[i]] != optionsByDistance[results[j]] {\n\t\t\t"+anchor+"\n\t\t}\n\t\treturn maphash.String(verifSelftestSeed, results[i]) < maphash.String(verifSelftestSeed, results[j])", 1)
		src = strings.Replace(src, imp, imp+"\t\"hash/maphash\"\n", 1) + "\nvar verifSelftestSeed = maphash.MakeSeed()\n"
		return os.WriteFile(p, []byte(src), 0o644)
	}
	pb := prepareMutated(prepOpts{instrumented: true, name: "procseed-probe"}, probe3)
	if pb == nil {
		skipped = append(skipped, "process-seed probe (anchor in validator/suggestionList.go not found)")
	} else {
		// one document with a two-way suggestion tie, evaluated alone in two fresh
		// processes that differ in nothing but VERIF_PROCSEED
		key := `{"kind":"V","schema_name":"s","schema":"type Query { age: Int ago: Int }","doc":"{ ag }","obs_key":"V|0|0"}`
		eval := func(seed string) string {
			cmd := exec.Command(pb.bin, "c10-one")
			cmd.Stdin = strings.NewReader(key)
			cmd.Env = append(os.Environ(), "VERIF_PROCSEED="+seed)
			b, _ := cmd.Output()
			return string(b)
		}
		base := eval("0")
		if !strings.Contains(base, "Did you mean") {
			die(2, "selftest: process-seed probe produced no suggestion: %s", base)
		}
		if again := eval("0"); again != base {
			die(2, "selftest: two processes with the SAME process seed disagree: the hash/maphash stand-in is not deterministic")
		}
		differs := 0
		for _, ps := range []string{"1", "2", "3", "5", "8", "13"} {
			if eval(ps) != base {
				differs++
			}
		}
		if differs == 0 {
			die(2, "selftest: a suggestion tie ranked by a per-process maphash seed did NOT differ between processes with different VERIF_PROCSEED: the process-level randomness seam is not in effect")
		}
		logf("selftest: process-seed seam fires on the probe (%d of 6 other process seeds give another result; same seed repeats)", differs)
	}
	for _, s := range skipped {
		logf("selftest: skipped %s", s)
	}
	fmt.Printf("selftest ok: %d seeds x 3 processes (GOMAXPROCS 1/4/16) x {C10, C11 under -race} with identical event logs; oracle probes fired\n", seeds)
	return 0
}

// prepareMutated is prepare with a source edit applied to the scratch copy
// before instrumentation. Returns nil when the edit does not apply.
func prepareMutated(o prepOpts, edit func(dir string) error) *build {
	o.edit = edit
	return prepare(o)
}
