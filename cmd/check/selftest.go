package main

func selftest(o options, seeds int) int { die(2, "selftest not built yet"); return 2 }
