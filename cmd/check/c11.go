package main

func checkC11(o options) int  { die(2, "C11 not built yet"); return 2 }
func replayC11(o options) int { die(2, "C11 not built yet"); return 2 }
