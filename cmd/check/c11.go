package main

import (
	"encoding/json"
	"fmt"
	"os"
	"path/filepath"
	"sort"
	"strings"
	"time"
)

type c11Found struct {
	Class  string `json:"class"`
	Oracle string `json:"oracle"`
	Detail string `json:"detail"`
	Replay string `json:"replay"`
	Seed   uint64 `json:"run_seed"`
	Worker int    `json:"worker"`
	Index  int    `json:"run_index"`
	Cold   bool   `json:"cold"`
}

type c11Stats struct {
	Worker         int               `json:"worker"`
	Race           bool              `json:"race_detector"`
	FirstRunSeed   uint64            `json:"first_run_seed"`
	LastRunSeed    uint64            `json:"last_run_seed"`
	Runs           int               `json:"runs"`
	RunsSkipped    int               `json:"runs_skipped_schema_error"`
	RunsBySource   map[string]int    `json:"runs_by_source"`
	RunsByStrategy map[string]int    `json:"runs_by_strategy"`
	RunsByMask     map[string]int    `json:"runs_by_site_mask"`
	TasksHist      map[string]int    `json:"tasks_per_run"`
	OpsByKind      map[string]int    `json:"ops_by_kind"`
	Steps          uint64            `json:"steps"`
	Switches       uint64            `json:"switches"`
	Preemptions    int               `json:"preemptions"`
	WriterSwitches int               `json:"writer_switches"`
	Aborts         int               `json:"aborts_fired"`
	Stalls         int               `json:"stalls_fired"`
	FaultsPlanned  int               `json:"faults_planned"`
	Samples        int               `json:"samples"`
	Snapshots      int               `json:"snapshots"`
	OpsDone        int               `json:"ops_done"`
	OpsAborted     int               `json:"ops_aborted"`
	OpsOverBudget  int               `json:"ops_over_yield_budget"`
	OpsCompared    int               `json:"ops_compared"`
	OverBudget     int               `json:"runs_over_budget"`
	ColdRuns       int               `json:"cold_runs"`
	SchedHashes    []uint64          `json:"sched_hashes"`
	SitePairList   []uint64          `json:"site_pairs"`
	Probes         map[string]int    `json:"probes"`
	WallS          float64           `json:"wall_s"`
	Violations     []c11Found        `json:"violations"`
	SampleRuns     []json.RawMessage `json:"sample_runs"`
}

// goraceEnv: environment of every C11 simulation process. GOMAXPROCS=1: tasks
// run one at a time anyway (same throughput, measured), and with a single P
// the per-P caches of sync.Pool behave the same in every execution - a pooled
// buffer in library code would otherwise be handed out or not depending on
// which P a task goroutine happened to run on, and replays would be flaky.
func goraceEnv(prefix string) []string {
	return []string{"GORACE=log_path=" + prefix + " halt_on_error=0 history_size=7 exitcode=0", "GOMAXPROCS=" + gomaxprocs()}
}

func checkC11(o options) int {
	wall := o.wall
	defer func(d time.Duration) { procBackstop = d }(procBackstop)
	if wall == 0 {
		if o.tier == "thorough" {
			wall = 25 * time.Minute
		} else {
			wall = 45 * time.Second
		}
	}
	// every child is bounded: the exploration budget plus a generous allowance
	// for minimisation and the fresh-process phases
	procBackstop = wall + 20*time.Minute
	known := loadKnown("C11")
	builds := prepareAll(prepOpts{instrumented: true, race: true, name: "race"}, prepOpts{instrumented: true, name: "inst"})
	race, plain := builds[0], builds[1]
	census := asList(race.instrument["census"])
	logf("built: race and plain instrumented harness (%v sites); census hits: %d", race.instrument["sites"], len(census))
	noIso := false
	noLiveness := false
	concurrencyHits := 0
	for _, h := range census {
		m, _ := h.(map[string]interface{})
		if m["class"] == "concurrency" {
			// not a reason to refuse by itself: `go` statements are counted at run
			// time, and a worker stops with exit 2 only if one executes inside a
			// simulated operation (a blocking channel operation without a library
			// goroutine to talk to would trip the watchdog: exit 2 as well)
			concurrencyHits++
		}
		if m["class"] == "nondeterminism" {
			noIso = true
		}
		if w, _ := m["what"].(string); strings.HasPrefix(w, "sync.") && (strings.Contains(w, "not at statement level") || strings.Contains(w, "method value")) {
			// locks taken or released where the instrumenter's Lock()/Unlock()
			// brackets cannot follow: the evidence the liveness verdict rests on
			// (a bracket left open) is not reliable on this tree; a blocked call
			// stays machinery trouble (exit 2)
			noLiveness = true
		}
	}
	if noLiveness {
		os.Setenv("VERIF_NO_LIVENESS", "1") // inherited by every child
		logf("census: locks used beyond statement-level Lock()/Unlock(): liveness verdict off")
	} else {
		os.Unsetenv("VERIF_NO_LIVENESS")
	}
	rdir := filepath.Join(scratch, "replays")
	os.MkdirAll(rdir, 0o755)
	// one worker in four runs without the race detector (5-10x more schedules
	// for the drift and isolation oracles); the others carry all three oracles
	res := runProcs(o.workers, func(i int) (string, []string, []string, string) {
		of := filepath.Join(scratch, fmt.Sprintf("c11-w%d.json", i))
		bin := race.bin
		if i%4 == 3 {
			bin = plain.bin
		}
		rlog := filepath.Join(scratch, fmt.Sprintf("racelog-w%d", i))
		args := []string{"c11", "--seed", fmt.Sprint(o.seed), "--worker", fmt.Sprint(i), "--wall", wall.String(), "--out", of, "--replays", rdir, "--sources", o.sources, "--known", knownArg(known), "--racelog", rlog}
		if noIso {
			args = append(args, "--no-isolation")
		}
		return bin, args, goraceEnv(rlog), of
	})
	var stats []c11Stats
	for _, r := range res {
		if r.err != nil {
			die(2, "C11 worker %d failed (exit %d): machinery trouble (watchdog, harness bug or crash outside a recovered operation), not a C11 verdict:\n%s", r.idx, r.exit, tail(r.stderr, 60))
		}
		var st c11Stats
		if err := readJSONFile(r.file, &st); err != nil {
			die(2, "C11 worker %d result: %v", r.idx, err)
		}
		stats = append(stats, st)
	}
	logf("exploration done")

	// ---- violations: minimise, confirm in a fresh process, publish ----
	seen := map[string]bool{}
	var knownLines, violationLines []string
	unknown := 0
	exit := 0
	outDir := filepath.Join(verifDir, "replays")
	for _, st := range stats {
		for _, v := range st.Violations {
			if seen[v.Class] {
				continue
			}
			seen[v.Class] = true
			if kf := isKnown(known, v.Class); kf != nil {
				knownLines = append(knownLines, fmt.Sprintf("KNOWN-FINDING: property=C11 %s (%s)", kf.What, v.Class))
				continue
			}
			unknown++
			if unknown > o.maxClasses {
				continue
			}
			bin := race.bin
			if v.Oracle != "race" && !st.Race {
				bin = plain.bin
			}
			minPath := filepath.Join(rdir, "min-"+filepath.Base(v.Replay))
			rlog := filepath.Join(scratch, fmt.Sprintf("racelog-min%d", unknown))
			budget := "120s"
			if o.tier == "thorough" {
				budget = "300s"
			}
			if o.minBudget > 0 {
				budget = o.minBudget.String()
			}
			cmdEnv := append(os.Environ(), goraceEnv(rlog)...)
			out, err := run(scratch, cmdEnv, bin, "c11-min", "--out", minPath, "--budget", budget, "--racelog", rlog, v.Replay)
			final := minPath
			nonReplayable := false
			if err != nil {
				// the run alone does not reproduce it in a fresh process: the worker's
				// earlier runs may matter (warm sync.Map, lazily initialised state)
				escPath := filepath.Join(rdir, "esc-"+filepath.Base(v.Replay))
				eout, eerr := run(scratch, cmdEnv, bin, "c11-escalate", "--seed", fmt.Sprint(o.seed), "--worker", fmt.Sprint(v.Worker), "--index", fmt.Sprint(v.Index), "--sources", o.sources, "--class", v.Class, "--racelog", rlog, "--out", escPath, "--budget", budget)
				if eerr == nil && !v.Cold {
					logf("class %s needed the worker's earlier runs: %s", v.Class, strings.TrimSpace(tail(eout, 1)))
					final = escPath
				} else {
					// seen by the worker (witness attached), not reproducible on demand:
					// published as such rather than dropped
					logf("class %s: neither the run nor the worker's history reproduces it in a fresh process (%s); publishing the worker's witness, replayable=false", v.Class, strings.TrimSpace(tail(out, 1)))
					final = v.Replay
					nonReplayable = true
				}
			} else {
				logf("class %s: %s", v.Class, strings.TrimSpace(tail(out, 1)))
			}
			// fresh-process confirmation
			rout, rerr := run(scratch, cmdEnv, bin, "c11-replay", "--racelog", rlog, final)
			for try := 0; try < 4 && strings.HasPrefix(v.Class, "race:") && (rerr == nil || !strings.Contains(rout, "REPRODUCED class="+v.Class)); try++ {
				// race verdicts depend on the detector's bounded shadow memory (DESIGN.md section 9)
				rout, rerr = run(scratch, cmdEnv, bin, "c11-replay", "--racelog", rlog, final)
			}
			if nonReplayable {
				rerr, rout = fmt.Errorf("not replayable"), "REPRODUCED class="+v.Class
			}
			if rerr == nil || !strings.Contains(rout, "REPRODUCED class="+v.Class) {
				die(2, "C11: replay of %s did not reproduce class %s in a fresh process (simulator nondeterminism?):\n%s", final, v.Class, tail(rout, 10))
			}
			var rp map[string]interface{}
			dst := filepath.Join(outDir, fmt.Sprintf("C11-%d-%d.json", v.Seed, unknown))
			if err := readJSONGeneric(final, &rp); err == nil {
				rp["repo_tree"] = repoTree()
				rp["verif_seed"] = o.seed
				rp["race_detector"] = bin == race.bin
				if nonReplayable {
					rp["replayable"] = false
					rp["note"] = "a worker observed this violation (witness below: for a race the detector's report with both stacks) but neither the run alone nor the worker's whole history reproduced it in fresh processes; the race detector's bounded shadow memory and the process state of synchronisation primitives are outside the simulator's control (DESIGN.md section 9)"
					rp["witness"] = []map[string]string{{"oracle": v.Oracle, "class": v.Class, "detail": v.Detail}}
				}
				writeJSONFile(dst, rp)
			}
			violationLines = append(violationLines, fmt.Sprintf("VIOLATION property=C11 replay=%s", dst))
			logf("violation %s: %s", v.Class, firstLine(v.Detail))
			exit = 1
		}
	}

	ev := aggregateC11(o, stats, wall)
	cov := ev["coverage"].(map[string]interface{})
	cov["census"] = census
	cov["isolation_oracle"] = !noIso
	cov["census_concurrency_constructs_in_library_code"] = concurrencyHits
	cov["goroutines_spawned_inside_simulated_operations"] = 0
	cov["instrumenter"] = race.instrument
	cov["known_findings_hit"] = knownLines
	ev["violations"] = unknown
	ev["wall_s"] = time.Since(t0).Seconds()
	writeJSONFile(filepath.Join(verifDir, "evidence", "C11.json"), ev)
	for _, l := range knownLines {
		fmt.Println(l)
	}
	for _, l := range violationLines {
		fmt.Println(l)
	}
	if exit == 0 {
		fmt.Printf("C11 ok: %v runs, %v distinct preempted interleavings, %v operations compared solo vs concurrent, %v snapshots, 0 unlisted violations\n", cov["evaluations"], cov["distinct_nontrivial"], cov["operations_compared"], cov["snapshots_compared"])
	}
	return exit
}

func firstLine(s string) string {
	s = strings.TrimSpace(s)
	if i := strings.IndexByte(s, '\n'); i >= 0 {
		s = s[:i]
	}
	if len(s) > 300 {
		s = s[:300]
	}
	return s
}

func aggregateC11(o options, stats []c11Stats, wall time.Duration) map[string]interface{} {
	tot := c11Stats{RunsBySource: map[string]int{}, RunsByStrategy: map[string]int{}, RunsByMask: map[string]int{}, TasksHist: map[string]int{}, OpsByKind: map[string]int{}, Probes: map[string]int{}}
	sched := map[uint64]bool{}
	pairs := map[uint64]bool{}
	var samples []json.RawMessage
	var seeds []map[string]interface{}
	raceRuns, plainRuns := 0, 0
	var wsum float64
	for _, st := range stats {
		tot.Runs += st.Runs
		tot.RunsSkipped += st.RunsSkipped
		tot.Steps += st.Steps
		tot.Switches += st.Switches
		tot.Preemptions += st.Preemptions
		tot.WriterSwitches += st.WriterSwitches
		tot.Aborts += st.Aborts
		tot.Stalls += st.Stalls
		tot.FaultsPlanned += st.FaultsPlanned
		tot.Samples += st.Samples
		tot.Snapshots += st.Snapshots
		tot.OpsDone += st.OpsDone
		tot.OpsAborted += st.OpsAborted
		tot.OpsOverBudget += st.OpsOverBudget
		tot.OpsCompared += st.OpsCompared
		tot.OverBudget += st.OverBudget
		tot.ColdRuns += st.ColdRuns
		addMap(tot.RunsBySource, st.RunsBySource)
		addMap(tot.RunsByStrategy, st.RunsByStrategy)
		addMap(tot.RunsByMask, st.RunsByMask)
		addMap(tot.TasksHist, st.TasksHist)
		addMap(tot.OpsByKind, st.OpsByKind)
		addMap(tot.Probes, st.Probes)
		for _, h := range st.SchedHashes {
			sched[h] = true
		}
		for _, p := range st.SitePairList {
			pairs[p] = true
		}
		if st.Race {
			raceRuns += st.Runs
		} else {
			plainRuns += st.Runs
		}
		if len(samples) < 3 && len(st.SampleRuns) > 0 {
			samples = append(samples, st.SampleRuns[len(st.SampleRuns)-1])
		}
		seeds = append(seeds, map[string]interface{}{"worker": st.Worker, "race_detector": st.Race, "first_run_seed": st.FirstRunSeed, "last_run_seed": st.LastRunSeed, "runs": st.Runs})
		wsum += st.WallS
	}
	perHour := 0
	if wsum > 0 {
		perHour = int(float64(tot.Runs) / (wsum / float64(len(stats))) * 3600)
	}
	var stuck []string
	pk := sortedKeys(tot.Probes)
	for _, p := range pk {
		if tot.Probes[p] == 0 {
			stuck = append(stuck, p)
		}
	}
	sort.Strings(stuck)
	cov := map[string]interface{}{
		"evaluations":         tot.Runs,
		"distinct_nontrivial": len(sched),
		"rule": "one evaluation = one simulated run: 2-32 client tasks (real goroutines run one at a time by the seeded scheduler, handoff invisible to the race detector) each issuing 1-8 operations (LoadQuery / ParseQuery+Validate with a rule list, then variable coercion, argument maps, document formatting; schema formatting) against one shared schema, with seeded preemption strategy, site mask and faults. " +
			"A run is non-trivial when at least one preemption happened at a yield point inside library code; distinct = distinct hashes of the executed switch sequence (task, task-local yield, target).",
		"samples":                            samples,
		"runs_with_race_detector":            raceRuns,
		"runs_without_race_detector":         plainRuns,
		"runs_skipped_schema_error":          tot.RunsSkipped,
		"runs_by_source":                     tot.RunsBySource,
		"runs_by_strategy":                   tot.RunsByStrategy,
		"runs_by_site_mask":                  tot.RunsByMask,
		"tasks_per_run":                      tot.TasksHist,
		"operations_by_kind":                 tot.OpsByKind,
		"operations_completed":               tot.OpsDone,
		"operations_aborted":                 tot.OpsAborted,
		"operations_cut_off_at_yield_budget": tot.OpsOverBudget,
		"operations_compared":                tot.OpsCompared,
		"logical_steps_yields":               tot.Steps,
		"context_switches":                   tot.Switches,
		"fault_kinds_injected": map[string]interface{}{
			"preemptions_inside_library_code":       tot.Preemptions,
			"writer_stalls_switch_inside_io_Writer": tot.WriterSwitches,
			"aborts_fired":                          tot.Aborts,
			"stalls_fired":                          tot.Stalls,
			"faults_planned":                        tot.FaultsPlanned,
		},
		"mid_run_snapshot_samples":                       tot.Samples,
		"snapshots_compared":                             tot.Snapshots,
		"distinct_interleavings":                         len(sched),
		"distinct_preemption_site_pairs":                 len(pairs),
		"runs_over_yield_budget":                         tot.OverBudget,
		"cold_runs_fresh_process_concurrent_phase_first": tot.ColdRuns,
		"probes":                   tot.Probes,
		"probes_stuck_at_zero":     stuck,
		"simulated_runs_per_hour":  perHour,
		"simulated_time":           "none: no code path reads a clock; logical time is the global yield counter (logical_steps_yields)",
		"worker_seeds":             seeds,
		"seed_derivation":          "run seed = splitmix(splitmix(VERIF_SEED, worker+5000), n)",
		"workers":                  len(stats),
		"wall_budget_per_worker_s": wall.Seconds(),
		"components":               map[string]string{"real": "every library package, instrumented with yield points before every statement and the map-order seam; Go race detector as history oracle", "harness": "io.Writer given to the formatter (yields / aborts inside Write), request data, sentinel reader, schema fingerprint", "stub": "none"},
	}
	return map[string]interface{}{
		"property_id": "C11", "tier": o.tier, "seed": int64(o.seed), "level": "exploration",
		"coverage": cov,
		"assumptions": []string{
			"the handoff between tasks (raw read/write on pipes via syscall.Syscall) creates no happens-before edge for the race detector, so every unsynchronised conflicting access pair of two tasks is reported whatever the schedule (re-checked by selftest with a seeded mutant)",
			"sync.Pool exchanges inside fmt can order two tasks and mask a race between them in one run; other seeds exchange differently",
			"AddRule/RemoveRule/ReplaceRule are not called concurrently (documented as unsafe; outside the property)",
			"sampled: schedules, faults and programs are not enumerated",
		},
	}
}

func replayC11(o options) int {
	var rp struct {
		Race *bool `json:"race_detector"`
	}
	readJSONFile(o.replay, &rp)
	useRace := rp.Race == nil || *rp.Race
	builds := prepareAll(prepOpts{instrumented: true, race: useRace, name: "race"})
	rlog := filepath.Join(scratch, "racelog-replay")
	var rc struct {
		Class string `json:"class"`
	}
	readJSONFile(o.replay, &rc)
	out, err := run(scratch, append(os.Environ(), goraceEnv(rlog)...), builds[0].bin, "c11-replay", "--racelog", rlog, o.replay)
	for try := 0; try < 4 && err == nil && strings.HasPrefix(rc.Class, "race:"); try++ {
		// a race report depends on the detector's bounded shadow memory: a few fresh processes
		out, err = run(scratch, append(os.Environ(), goraceEnv(rlog)...), builds[0].bin, "c11-replay", "--racelog", rlog, o.replay)
	}
	fmt.Print(out)
	if err == nil {
		fmt.Println("replay: violation NOT reproduced on the current tree")
		return 0
	}
	if strings.Contains(out, "REPRODUCED") {
		fmt.Printf("VIOLATION property=C11 replay=%s\n", o.replay)
		return 1
	}
	return 2
}

func gomaxprocs() string {
	if v := os.Getenv("VERIF_GOMAXPROCS"); v != "" {
		return v
	}
	return "1"
}
