package main

import (
	"encoding/json"
	"fmt"
	"os"
	"os/exec"
	"path/filepath"
	"sort"
	"strings"
	"time"
)

type c10Violation struct {
	Class     string                 `json:"class"`
	Replay    string                 `json:"replay"`
	Witness   map[string]interface{} `json:"witness"`
	Site      string                 `json:"site"`
	Seed      uint64                 `json:"session_seed"`
	Worker    int                    `json:"worker"`
	Index     int                    `json:"session_index"`
	Canonical bool                   `json:"canonical"`
}

type c10Stats struct {
	Worker             int               `json:"worker"`
	FirstSessionSeed   uint64            `json:"first_session_seed"`
	LastSessionSeed    uint64            `json:"last_session_seed"`
	Sessions           int               `json:"sessions"`
	SessionsBySource   map[string]int    `json:"sessions_by_source"`
	SessionsByMix      map[string]int    `json:"sessions_by_mix"`
	Ops                int               `json:"ops"`
	OpsByKind          map[string]int    `json:"ops_by_kind"`
	OpsSkipped         int               `json:"ops_skipped"`
	Observations       int               `json:"observations"`
	Compared           int               `json:"compared"`
	ComparedGlobal     int               `json:"compared_global"`
	DistinctKeys       int               `json:"distinct_keys"`
	Templates          []string          `json:"templates"`
	RulesSeen          map[string]int    `json:"rules_seen"`
	VisitsBySite       map[string]int    `json:"visits_by_site"`
	VisitsByMode       map[string]int    `json:"visits_by_mode"`
	EffectiveBySite    map[string]int    `json:"effective_by_site"`
	EffectiveSessions  int               `json:"effective_sessions"`
	EffectiveHashes    []uint64          `json:"effective_hashes"`
	InvalidValidate    int               `json:"invalid_validate_observations"`
	LoadErrors         int               `json:"load_error_observations"`
	Probes             map[string]int    `json:"probes"`
	WallS              float64           `json:"wall_s"`
	Violations         []c10Violation    `json:"violations"`
	Samples            []json.RawMessage `json:"samples"`
	CanonDigest        map[string]uint64 `json:"canon_digest"`
	OverBudgetSessions []uint64          `json:"over_budget_sessions"`
}

type digestEntry struct {
	Hashes     []uint64 `json:"hashes"`
	Renderings []string `json:"renderings"`
	Session    uint64   `json:"session"`
	Source     string   `json:"source"`
	Key        string   `json:"key"`
}

type digestFile struct {
	Hung         bool                    `json:"hung"`
	Instrumented bool                    `json:"instrumented"`
	Entries      map[string]*digestEntry `json:"entries"`
}

func knownArg(kn []knownFinding) string {
	var cs []string
	for _, k := range kn {
		cs = append(cs, k.Class)
	}
	return strings.Join(cs, ";;")
}

func isKnown(kn []knownFinding, class string) *knownFinding {
	for i := range kn {
		if kn[i].Class == class {
			return &kn[i]
		}
	}
	return nil
}

func ruleOfRendering(a, b string) string {
	la, lb := strings.Split(a, "\n"), strings.Split(b, "\n")
	for i := 0; i < len(la) || i < len(lb); i++ {
		var x, y string
		if i < len(la) {
			x = la[i]
		}
		if i < len(lb) {
			y = lb[i]
		}
		if x != y {
			l := x
			if l == "" {
				l = y
			}
			if j := strings.Index(l, "rule="); j >= 0 {
				r := l[j+5:]
				if k := strings.IndexByte(r, ' '); k >= 0 {
					r = r[:k]
				}
				if r != "" {
					return r
				}
			}
			return "(none)"
		}
	}
	return "(none)"
}

func checkC10(o options) int {
	wall := o.wall
	defer func(d time.Duration) { procBackstop = d }(procBackstop)
	canonProcs, canonSessions, pristProcs, pristReps, isoCap := 4, 400, 4, 3, 3000
	if o.tier == "thorough" {
		canonProcs, canonSessions, pristProcs, pristReps, isoCap = 16, 3000, 16, 5, 20000
		if wall == 0 {
			wall = 20 * time.Minute
		}
	} else if wall == 0 {
		wall = 20 * time.Second
	}
	// every child is bounded: the exploration budget plus a generous allowance
	// for minimisation and the fresh-process phases
	procBackstop = wall + 20*time.Minute
	known := loadKnown("C10")
	builds := prepareAll(prepOpts{instrumented: true, name: "inst"}, prepOpts{instrumented: false, name: "prist"})
	inst, prist := builds[0], builds[1]
	logf("built: instrumented (%v sites, %v map seams) and pristine harness", inst.instrument["sites"], len(asList(inst.instrument["map_ranges"])))
	census := asList(inst.instrument["census"])
	weak := asList(inst.instrument["weak_sites"])
	rdir := filepath.Join(scratch, "replays")
	os.MkdirAll(rdir, 0o755)
	// library code with goroutines/channels of its own: the simulator does not
	// own that schedule (DESIGN.md 3.1). C10 still runs - two different outputs
	// for the same texts are a violation whatever caused them - with scheduling
	// jitter at the yield points, and a finding that cannot be replayed is
	// published with replayable=false instead of being treated as my failure.
	unownedSchedule := false
	for _, h := range census {
		if m, _ := h.(map[string]interface{}); m != nil && m["class"] == "concurrency" {
			unownedSchedule = true
		}
	}
	if !unownedSchedule {
		os.Setenv("GOMAXPROCS", "1") // single goroutine anyway; makes sync.Pool's per-P caches behave the same in every process
	}
	if unownedSchedule {
		os.Setenv("VERIF_JITTER", "1")
		logf("census: library code uses goroutines/channels (%d hits): schedule not owned, jitter on, findings may be non-replayable", len(census))
	}

	// phase 1: seeded exploration of sessions x map orders
	res := runProcs(o.workers, func(i int) (string, []string, []string, string) {
		of := filepath.Join(scratch, fmt.Sprintf("c10-w%d.json", i))
		return inst.bin, []string{"c10", "--seed", fmt.Sprint(o.seed), "--worker", fmt.Sprint(i), "--wall", wall.String(), "--out", of, "--replays", rdir, "--sources", o.sources, "--known", knownArg(known)}, nil, of
	})
	var stats []c10Stats
	for _, r := range res {
		if r.err != nil {
			die(2, "C10 worker %d failed (exit %d); this is machinery trouble or a crash of the library outside a recovered operation, not a C10 verdict:\n%s", r.idx, r.exit, tail(r.stderr, 40))
		}
		var st c10Stats
		if err := readJSONFile(r.file, &st); err != nil {
			die(2, "C10 worker %d result: %v", r.idx, err)
		}
		stats = append(stats, st)
	}
	logf("exploration done")

	// phase 2: fresh processes, canonical seam: digests must agree across processes
	isoFile := filepath.Join(scratch, "c10-iso-keys.json")
	cres := runProcs(canonProcs, func(i int) (string, []string, []string, string) {
		of := filepath.Join(scratch, fmt.Sprintf("c10-canon%d.json", i))
		crdir := filepath.Join(rdir, fmt.Sprintf("canon%d", i)) // same worker index and seeds as exploration worker 0: keep the files apart
		os.MkdirAll(crdir, 0o755)
		args := []string{"c10", "--canonical", "--seed", fmt.Sprint(o.seed), "--worker", "0", "--sessions", fmt.Sprint(canonSessions), "--out", of, "--replays", crdir, "--sources", o.sources, "--known", knownArg(known)}
		if i == 0 {
			args = append(args, "--isolate-out", isoFile, "--isolate-cap", fmt.Sprint(isoCap))
		}
		// every child but the first gets a heap layout and GC rhythm of its own,
		// and the children differ in the number of Ps (a result must not depend
		// on how many CPUs the process may use)
		env := []string{fmt.Sprintf("VERIF_BALLAST=%d", i*11)}
		if i > 0 {
			env = append(env, fmt.Sprintf("GOMAXPROCS=%d", []int{1, 2, 3, 16}[i%4]))
		}
		return inst.bin, args, env, of
	})
	var canon []c10Stats
	for _, r := range cres {
		if r.err != nil {
			die(2, "C10 canonical child %d failed:\n%s", r.idx, tail(r.stderr, 40))
		}
		var st c10Stats
		if err := readJSONFile(r.file, &st); err != nil {
			die(2, "C10 canonical child %d result: %v", r.idx, err)
		}
		canon = append(canon, st)
	}
	crossCompared := 0
	type unowned struct {
		key  string
		a, b uint64
	}
	var unownedDiffs []unowned
	for i := 1; i < len(canon); i++ {
		for k, h := range canon[0].CanonDigest {
			if h2, ok := canon[i].CanonDigest[k]; ok {
				crossCompared++
				if h != h2 {
					unownedDiffs = append(unownedDiffs, unowned{k, h, h2})
				}
			}
		}
	}

	// phase 2b: isolated fresh-process oracle. Each sampled key of child 0 is
	// evaluated again as the only thing a brand-new process does, and must equal
	// what the same texts gave inside the session (after whatever that process
	// had loaded and validated before): "in the same process, in a fresh process".
	type isoMismatch struct {
		Key      json.RawMessage `json:"key"`
		Isolated string          `json:"isolated_rendering"`
		Rule     string          `json:"rule"`
		Self     bool            `json:"self_inconsistent,omitempty"`
	}
	isoCompared := 0
	var isoBad []isoMismatch
	ires := runProcs(o.workers, func(i int) (string, []string, []string, string) {
		of := filepath.Join(scratch, fmt.Sprintf("c10-iso%d.json", i))
		return inst.bin, []string{"c10-isolated", "--in", isoFile, "--part", fmt.Sprint(i), "--parts", fmt.Sprint(o.workers), "--out", of}, nil, of
	})
	for _, r := range ires {
		if r.err != nil {
			die(2, "C10 isolated-oracle batch %d failed:\n%s", r.idx, tail(r.stderr, 40))
		}
		var ir struct {
			Compared   int           `json:"compared"`
			Mismatches []isoMismatch `json:"mismatches"`
		}
		if err := readJSONFile(r.file, &ir); err != nil {
			die(2, "C10 isolated-oracle batch %d result: %v", r.idx, err)
		}
		isoCompared += ir.Compared
		isoBad = append(isoBad, ir.Mismatches...)
	}

	// sessions with an operation that exceeded the yield budget: the
	// uninstrumented children cannot count yields and skip them
	skipFile := filepath.Join(scratch, "c10-skip-sessions.json")
	skipList := canon[0].OverBudgetSessions
	if skipList == nil {
		skipList = []uint64{}
	}
	writeJSONFile(skipFile, skipList)

	// phase 3: pristine (uninstrumented) build under the real runtime order
	pres := runProcs(pristProcs, func(i int) (string, []string, []string, string) {
		of := filepath.Join(scratch, fmt.Sprintf("c10-prist%d.json", i))
		return prist.bin, []string{"c10-digest", "--seed", fmt.Sprint(o.seed), "--worker", "0", "--sessions", fmt.Sprint(canonSessions), "--reps", fmt.Sprint(pristReps), "--out", of, "--sources", o.sources, "--skip-sessions", skipFile}, []string{fmt.Sprintf("VERIF_BALLAST=%d", i*13)}, of
	})
	pristHung := 0
	pristAll := map[string]*digestEntry{}
	for _, r := range pres {
		if r.err != nil {
			die(2, "C10 pristine child %d failed:\n%s", r.idx, tail(r.stderr, 40))
		}
		var df digestFile
		if err := readJSONFile(r.file, &df); err != nil {
			die(2, "C10 pristine child %d result: %v", r.idx, err)
		}
		if df.Instrumented {
			die(2, "pristine build turned out to be instrumented")
		}
		if df.Hung {
			pristHung++
		}
		for k, e := range df.Entries {
			p := pristAll[k]
			if p == nil {
				pristAll[k] = e
				continue
			}
			for j, h := range e.Hashes {
				found := false
				for _, x := range p.Hashes {
					if x == h {
						found = true
					}
				}
				if !found {
					p.Hashes = append(p.Hashes, h)
					if j < len(e.Renderings) {
						p.Renderings = append(p.Renderings, e.Renderings[j])
					}
				}
			}
		}
	}
	logf("fresh-process and pristine phases done")

	// ---- collect violations ----
	type finalV struct {
		class         string
		replay        string
		what          string
		v             *c10Violation // worker-found: where in which worker's history it happened
		nonReplayable bool
	}
	var finals []finalV
	seenClass := map[string]bool{}
	for _, st := range append(stats, canon...) {
		for _, v := range st.Violations {
			if seenClass[v.Class] {
				continue
			}
			seenClass[v.Class] = true
			vv := v
			finals = append(finals, finalV{v.Class, v.Replay, fmt.Sprint(v.Witness["first_diff_line"]), &vv, false})
		}
	}
	// history dependence found by the isolated oracle: one witness per rule
	for i, m := range isoBad {
		class := "disagree-history|rule=" + m.Rule
		if seenClass[class] {
			continue
		}
		seenClass[class] = true
		mf := filepath.Join(scratch, fmt.Sprintf("iso-mismatch%d.json", i))
		writeJSONFile(mf, m)
		rf := filepath.Join(rdir, fmt.Sprintf("C10-history-%d.json", i))
		out, err := run(scratch, nil, inst.bin, "c10-history-witness", "--in", mf, "--out", rf, "--seed", fmt.Sprint(o.seed), "--sources", o.sources)
		if c := escalatedClass(out); c != "" {
			class = c
			seenClass[class] = true
		}
		if err != nil && unownedSchedule {
			// the schedule is not mine: publish what was seen
			writeJSONFile(rf, map[string]interface{}{"format": "verif-c10-history/unowned", "property": "C10", "class": "disagree-unowned-schedule|" + strings.TrimPrefix(class, "disagree-"), "replayable": false,
				"note": "a key evaluated alone in a fresh process differs from its in-session result while library code runs goroutines of its own; no deterministic witness could be built", "mismatch": m, "census": census, "verif_seed": o.seed})
			finals = append(finals, finalV{"disagree-unowned-schedule|" + strings.TrimPrefix(class, "disagree-"), rf, "isolated oracle, schedule not owned", nil, true})
			continue
		}
		if err != nil {
			// Two executions of the same texts gave different results and no
			// decision the simulator makes (map orders, clock, randomness, process
			// seed, process history) re-creates the difference: it comes from a
			// source the simulator does not own (heap addresses, the runtime's
			// per-process random state, ...). The observation itself is a
			// violation of C10; it is published as such, flagged not replayable.
			logf("isolated-oracle mismatch without a reproducing witness: %s", strings.TrimSpace(tail(out, 3)))
			class = "disagree-unowned-source|" + strings.TrimPrefix(class, "disagree-history|")
			writeJSONFile(rf, map[string]interface{}{"format": "verif-c10-history/unowned", "property": "C10", "class": class, "replayable": false,
				"note": "a key evaluated alone in a fresh process differs from what the same texts gave inside a session, and neither another process seed nor the worker's replayed history re-creates the difference: the result depends on a source of nondeterminism that none of the simulator's seams owns (heap addresses, runtime-random state, ...). The file documents the observation; it need not reproduce", "mismatch": m, "census": census, "verif_seed": o.seed})
			finals = append(finals, finalV{class, rf, "isolated oracle, unowned source of nondeterminism", nil, true})
			continue
		}
		what := "result depends on process history (isolated fresh-process oracle), rule " + m.Rule
		if strings.HasPrefix(class, "disagree-procseed|") {
			what = "result differs between two fresh processes that differ only in their process-level clock/randomness seed, rule " + m.Rule
		}
		finals = append(finals, finalV{class, rf, what, nil, false})
	}
	// pristine disagreement among real runs: a violation whatever caused it
	realMulti, translationChecked := 0, 0
	var pkeys []string
	for k := range pristAll {
		pkeys = append(pkeys, k)
	}
	sort.Strings(pkeys)
	var translationBad, translationBadKeys []string
	for _, k := range pkeys {
		e := pristAll[k]
		if len(e.Hashes) > 1 {
			realMulti++
			rule := "(none)"
			if len(e.Renderings) >= 2 {
				rule = ruleOfRendering(e.Renderings[0], e.Renderings[1])
			}
			class := "disagree-real|rule=" + rule
			if seenClass[class] {
				continue
			}
			seenClass[class] = true
			path := filepath.Join(rdir, fmt.Sprintf("C10-real-%s.json", k))
			writeJSONFile(path, map[string]interface{}{"format": "verif-c10-real/1", "property": "C10", "class": class, "replayable": false,
				"note":    "two executions of the UNINSTRUMENTED library on the same texts under the real runtime produced different results",
				"witness": e, "verif_seed": o.seed})
			finals = append(finals, finalV{class, path, "real-runtime disagreement on " + e.Key, nil, false})
			continue
		}
		// translation check: pristine result == instrumented canonical result
		if h, ok := canon[0].CanonDigest[k]; ok {
			translationChecked++
			if h != e.Hashes[0] {
				translationBad = append(translationBad, fmt.Sprintf("%s (session %d %s %s)", k, e.Session, e.Source, e.Key))
				translationBadKeys = append(translationBadKeys, k)
			}
		}
	}
	for _, u := range unownedDiffs {
		class := "disagree-process|canonical-seam"
		if seenClass[class] {
			continue
		}
		seenClass[class] = true
		path := filepath.Join(rdir, "C10-process-"+u.key+".json")
		writeJSONFile(path, map[string]interface{}{"format": "verif-c10-process/1", "property": "C10", "class": class, "replayable": false,
			"note": "two processes with the map-order seam canonical produced different results for the same texts: a nondeterminism source the seam does not own",
			"key":  u.key, "hash_a": u.a, "hash_b": u.b, "census": census, "verif_seed": o.seed})
		finals = append(finals, finalV{class, path, "cross-process disagreement with canonical seam", nil, false})
	}

	// ---- confirm replays, attach real-runtime confirmation, publish ----
	outDir := filepath.Join(verifDir, "replays")
	exit := 0
	var violationLines, knownLines []string
	unknownCount := 0
	seenFinal := map[string]bool{}
	unownedRules := map[string]bool{}
	unreduced := false
	for _, f := range finals {
		if strings.Contains(f.class, "(unreproduced)") && f.v != nil {
			// the worker saw two different results for the same texts in two of its
			// sessions but could not re-create it from those two alone: try its
			// whole history
			rf := filepath.Join(rdir, "esc-"+filepath.Base(f.replay))
			args := []string{"c10-escalate", "--seed", fmt.Sprint(o.seed), "--worker", fmt.Sprint(f.v.Worker), "--index", fmt.Sprint(f.v.Index), "--sources", o.sources, "--out", rf}
			if f.v.Canonical {
				args = append(args, "--canonical")
			}
			eout, eerr, tooLong := runBounded(15*time.Minute, scratch, inst.bin, args...)
			if c := escalatedClass(eout); eerr == nil && c != "" && !tooLong {
				f.class, f.replay = c, rf
			} else if tooLong {
				logf("worker %d reported %s in its session %d; the witness search over its history was stopped after 15 min", f.v.Worker, f.class, f.v.Index)
			}
			if seenFinal[f.class] {
				continue
			}
			seenFinal[f.class] = true
		} else if strings.Contains(f.class, "disagree:") && f.v != nil {
			if unownedRules[kindRule(f.class)] {
				continue // the same rule's results already turned out not to be re-creatable
			}
			// replay in a fresh process; if the session alone does not reproduce, the
			// difference depends on what the worker did in earlier sessions: rebuild
			// that history and reduce it
			out, err := run(scratch, nil, inst.bin, "c10-replay", f.replay)
			if !(err != nil && strings.Contains(out, "REPRODUCED class=")) {
				rf := filepath.Join(rdir, "esc-"+filepath.Base(f.replay))
				args := []string{"c10-escalate", "--seed", fmt.Sprint(o.seed), "--worker", fmt.Sprint(f.v.Worker), "--index", fmt.Sprint(f.v.Index), "--sources", o.sources, "--out", rf}
				if f.v.Canonical {
					args = append(args, "--canonical")
				}
				eout, eerr, tooLong := runBounded(15*time.Minute, scratch, inst.bin, args...)
				c := escalatedClass(eout)
				if tooLong {
					// The worker saw two different results for the same texts deep into
					// its run, and rebuilding a witness from its whole history (one
					// fresh-process replay of tens of thousands of sessions per
					// candidate) does not fit the budget. The observation stands: it is
					// published with both results, flagged not replayable.
					logf("worker %d reported %s in its session %d; the witness search over its history was stopped after 15 min", f.v.Worker, f.class, f.v.Index)
					f.class = "disagree-unreduced|" + kindRule(f.class)
					unownedRules[kindRule(f.class)] = true
					f.nonReplayable = true
					unreduced = true
				} else if (eerr != nil || c == "") && unownedSchedule {
					f.class = "disagree-unowned-schedule|" + strings.TrimPrefix(f.class, "disagree:")
					f.nonReplayable = true
				} else if eerr != nil || c == "" {
					// observed, but not re-creatable by any decision the simulator
					// makes: an unowned source of nondeterminism (see above)
					logf("worker %d reported %s in its session %d; neither that session alone nor the worker's whole history reproduces it in a fresh process: %s", f.v.Worker, f.class, f.v.Index, strings.TrimSpace(tail(eout, 2)))
					f.class = "disagree-unowned-source|" + kindRule(f.class)
					unownedRules[kindRule(f.class)] = true
					f.nonReplayable = true
				}
				if f.nonReplayable {
					goto decided
				}
				logf("class %s needed the worker's earlier sessions: %s", f.class, strings.TrimSpace(tail(eout, 1)))
				f.class, f.replay = c, rf
			} else if !strings.Contains(f.class, "site=history") {
				// found under perturbed map orders: do they matter at all?
				rf := filepath.Join(rdir, "canon-"+filepath.Base(f.replay))
				cout, cerr := run(scratch, nil, inst.bin, "c10-canon-min", "--in", f.replay, "--out", rf)
				if c := escalatedClass(cout); cerr == nil && c != "" {
					logf("class %s reproduces with canonical map orders: %s", f.class, strings.TrimSpace(tail(cout, 1)))
					f.class, f.replay = c, rf
				}
			}
		decided:
			if seenFinal[f.class] {
				continue
			}
			seenFinal[f.class] = true
		}
		if kf := isKnown(known, f.class); kf != nil {
			knownLines = append(knownLines, fmt.Sprintf("KNOWN-FINDING: property=C10 %s (%s)", kf.What, f.class))
			continue
		}
		unknownCount++
		if unknownCount > o.maxClasses {
			continue
		}
		dst := filepath.Join(outDir, fmt.Sprintf("C10-seed%d-%d-%s", o.seed, unknownCount, strings.TrimPrefix(strings.TrimPrefix(filepath.Base(f.replay), "esc-"), "C10-")))
		if f.nonReplayable {
			var rp map[string]interface{}
			if err := readJSONGeneric(f.replay, &rp); err == nil {
				rp["class"] = f.class
				rp["replayable"] = false
				rp["note"] = "two executions of the same texts gave different results (witness: rendering_first / rendering_later), found while library code was running goroutines of its own; the simulator does not own that schedule, so this file documents the finding but need not reproduce it"
				if unreduced && strings.HasPrefix(f.class, "disagree-unreduced|") {
					rp["note"] = "two executions of the same texts in one process gave different results (witness: rendering_first / rendering_later), observed deep into a worker's run; rebuilding and reducing a witness from the worker's whole history did not finish within 15 minutes and was stopped. The file documents the observation (worker, session index and VERIF_SEED identify the history); it need not reproduce from the one session it contains"
				} else if !unownedSchedule {
					rp["note"] = "two executions of the same texts in one process gave different results (witness: rendering_first / rendering_later), and neither the session alone nor the worker's whole history re-creates the difference in a fresh process: the result depends on a source of nondeterminism that none of the simulator's seams owns (heap addresses, runtime-random state, ...). The file documents the observation; it need not reproduce"
				}
				rp["census"] = census
				rp["repo_tree"] = repoTree()
				rp["verif_seed"] = o.seed
				writeJSONFile(dst, rp)
			}
		} else if strings.Contains(f.class, "disagree:") || strings.Contains(f.class, "disagree-history|") || strings.Contains(f.class, "disagree-procseed|") {
			// fresh-process confirmation of exactly the file that is published
			out, err := run(scratch, nil, inst.bin, "c10-replay", f.replay)
			reproduced := err != nil && strings.Contains(out, "REPRODUCED class="+f.class)
			if !reproduced && unownedSchedule {
				// found, even reduced, but the schedule is not mine: publish what was
				// seen, flagged as not replayable
				var rp map[string]interface{}
				if err := readJSONGeneric(f.replay, &rp); err == nil {
					rp["class"] = "disagree-unowned-schedule|" + strings.TrimPrefix(f.class, "disagree:")
					rp["replayable"] = false
					rp["census"] = census
					rp["repo_tree"] = repoTree()
					rp["verif_seed"] = o.seed
					writeJSONFile(dst, rp)
				}
				violationLines = append(violationLines, fmt.Sprintf("VIOLATION property=C10 replay=%s", dst))
				logf("violation class %s (schedule not owned: not replayable): %s", f.class, f.what)
				exit = 1
				continue
			}
			if !reproduced && !strings.Contains(f.class, "(unreproduced)") {
				// it did reproduce while the witness was being built, and does not
				// now: whatever decides it is not among the simulator's decisions
				var rp map[string]interface{}
				if err := readJSONGeneric(f.replay, &rp); err == nil {
					rp["class"] = "disagree-unowned-source|" + strings.TrimPrefix(strings.TrimPrefix(f.class, "disagree:"), "disagree-history|")
					rp["replayable"] = false
					rp["note"] = "this witness reproduced while it was being reduced and did not when replayed once more in a fresh process: the difference depends on a source of nondeterminism that none of the simulator's seams owns. The file documents the observation; it need not reproduce"
					rp["census"] = census
					rp["repo_tree"] = repoTree()
					rp["verif_seed"] = o.seed
					writeJSONFile(dst, rp)
				}
				violationLines = append(violationLines, fmt.Sprintf("VIOLATION property=C10 replay=%s", dst))
				logf("violation class %s (not replayable: unowned source of nondeterminism): %s", f.class, f.what)
				exit = 1
				continue
			}
			// confirmation under the real runtime (evidence, not a precondition)
			conf := "n/a (history dependence, not map order)"
			if strings.Contains(f.class, "disagree:") && !strings.Contains(f.class, "site=history") {
				conf = confirmReal(prist, f.replay)
			}
			var rp map[string]interface{}
			if err := readJSONGeneric(f.replay, &rp); err == nil {
				rp["class"] = f.class
				rp["confirmed_on_real_runtime"] = conf
				rp["repo_tree"] = repoTree()
				rp["verif_seed"] = o.seed
				rp["weak_sites"] = weak
				writeJSONFile(dst, rp)
			}
		} else {
			b, _ := os.ReadFile(f.replay)
			os.MkdirAll(outDir, 0o755)
			os.WriteFile(dst, b, 0o644)
		}
		violationLines = append(violationLines, fmt.Sprintf("VIOLATION property=C10 replay=%s", dst))
		logf("violation class %s: %s", f.class, f.what)
		exit = 1
	}
	// A key on which the uninstrumented children (which repeat every session
	// several times) and the instrumented canonical child disagree: either the
	// instrumentation changed behaviour (my bug) or the result depends on what
	// the process did before. The key evaluated ALONE in a fresh process of each
	// build decides: equal there, the insertions are innocent and the difference
	// is a violation seen in the uninstrumented library itself.
	if exit == 0 && len(translationBad) > 0 && len(knownLines) == 0 {
		e := pristAll[translationBadKeys[0]]
		kout, kerr := run(scratch, nil, inst.bin, "c10-key", "--seed", fmt.Sprint(e.Session), "--source", e.Source, "--obs", e.Key)
		if kerr == nil {
			evalOne := func(bin string) string {
				cmd := exec.Command(bin, "c10-one")
				cmd.Stdin = strings.NewReader(kout)
				b, _ := cmd.Output()
				var r struct {
					A string `json:"a"`
				}
				json.Unmarshal(b, &r)
				return r.A
			}
			ai, ap := evalOne(inst.bin), evalOne(prist.bin)
			if ai != "" && ai == ap {
				class := "disagree-history|uninstrumented-library|rule=" + ruleOfRendering(ai, firstOr(e.Renderings, ""))
				if kf := isKnown(known, class); kf != nil {
					knownLines = append(knownLines, fmt.Sprintf("KNOWN-FINDING: property=C10 %s (%s)", kf.What, class))
				} else {
					dst := filepath.Join(outDir, fmt.Sprintf("C10-seed%d-realhistory-%s.json", o.seed, translationBadKeys[0]))
					var key map[string]interface{}
					d := json.NewDecoder(strings.NewReader(kout))
					d.UseNumber()
					d.Decode(&key)
					writeJSONFile(dst, map[string]interface{}{"format": "verif-c10-real-history/1", "property": "C10", "class": class, "replayable": false,
						"note":                     "the UNINSTRUMENTED library, running this session several times in one process, gave a different result for these texts than the same texts evaluated alone in a fresh process (where the instrumented and the uninstrumented build agree): the result depends on what the process did before",
						"key":                      key,
						"alone_in_a_fresh_process": ai,
						"in_the_repeating_process": firstOr(e.Renderings, ""),
						"session_seed":             fmt.Sprint(e.Session), "session_source": e.Source, "repetitions_per_session": pristReps, "verif_seed": o.seed, "repo_tree": repoTree()})
					violationLines = append(violationLines, fmt.Sprintf("VIOLATION property=C10 replay=%s", dst))
					logf("violation class %s: uninstrumented children disagree with the isolated evaluation", class)
					unknownCount++
					exit = 1
				}
				translationBad = nil
			}
		}
	}
	if exit == 0 && len(translationBad) > 0 {
		// only meaningful when no order-dependence is in play: the pristine run
		// is single-valued but differs from the instrumented canonical run
		ignorable := len(knownLines) > 0 // a listed order-dependence legitimately makes real order != canonical
		if !ignorable {
			die(2, "C10 translation check failed: uninstrumented and instrumented-canonical results differ on %d keys, e.g. %s", len(translationBad), translationBad[0])
		}
	}

	// ---- evidence ----
	ev := aggregateC10(o, stats, canon, wall)
	cov := ev["coverage"].(map[string]interface{})
	cov["fresh_process_children"] = canonProcs
	cov["fresh_process_sessions_each"] = canonSessions
	cov["fresh_process_key_comparisons"] = crossCompared
	cov["isolated_process_keys_compared"] = isoCompared
	cov["isolated_process_mismatches"] = len(isoBad)
	cov["pristine_children"] = pristProcs
	cov["pristine_children_stopped_by_wall_clock_backstop"] = pristHung
	cov["sessions_skipped_in_pristine_children_yield_budget"] = len(skipList)
	cov["pristine_keys"] = len(pristAll)
	cov["pristine_keys_with_several_results"] = realMulti
	cov["translation_keys_checked"] = translationChecked
	cov["translation_keys_differing"] = len(translationBad)
	cov["census"] = census
	cov["weakly_controlled_sites"] = weak
	cov["instrumenter"] = inst.instrument
	cov["known_findings_hit"] = knownLines
	ev["violations"] = unknownCount
	ev["wall_s"] = time.Since(t0).Seconds()
	writeJSONFile(filepath.Join(verifDir, "evidence", "C10.json"), ev)

	for _, l := range knownLines {
		fmt.Println(l)
	}
	for _, l := range violationLines {
		fmt.Println(l)
	}
	if exit == 0 {
		fmt.Printf("C10 ok: %v sessions, %v keyed observations compared, %v effective sessions, 0 unlisted violations\n", cov["evaluations"], cov["observations_compared"], cov["effective_sessions"])
	}
	return exit
}

// kindRule reduces a class to "<kind>|rule=<rule>" (no site list).
func kindRule(class string) string {
	c := strings.TrimPrefix(strings.TrimPrefix(strings.TrimPrefix(class, "disagree-unowned-source|"), "disagree-unreduced|"), "disagree:")
	if i := strings.Index(c, "|site="); i >= 0 {
		c = c[:i]
	}
	return c
}

func escalatedClass(out string) string {
	i := strings.LastIndex(out, "escalated witness: class=")
	if i < 0 {
		return ""
	}
	l := out[i+len("escalated witness: class="):]
	if j := strings.Index(l, " sessions="); j >= 0 {
		return l[:j]
	}
	return ""
}

func firstOr(l []string, d string) string {
	if len(l) > 0 {
		return l[0]
	}
	return d
}

func asList(v interface{}) []interface{} {
	l, _ := v.([]interface{})
	return l
}

func confirmReal(prist *build, replay string) string {
	total := map[string]bool{}
	res := runProcs(8, func(i int) (string, []string, []string, string) {
		of := filepath.Join(scratch, fmt.Sprintf("confirm%d.json", i))
		return prist.bin, []string{"c10-confirm", "--reps", "500", "--out", of, replay}, nil, of
	})
	for _, r := range res {
		if r.err != nil {
			return "confirmation run failed"
		}
		var c struct {
			Renderings []string `json:"renderings"`
		}
		if err := readJSONFile(r.file, &c); err != nil {
			return "confirmation run failed"
		}
		for _, x := range c.Renderings {
			total[x] = true
		}
	}
	if len(total) >= 2 {
		return fmt.Sprintf("yes: %d distinct results for the witness key in 8 processes x 500 repetitions of the uninstrumented library", len(total))
	}
	return "no: 8 processes x 500 repetitions of the uninstrumented library gave a single result (the violating order was not produced by this runtime in that sample)"
}

func aggregateC10(o options, stats, canon []c10Stats, wall time.Duration) map[string]interface{} {
	tot := c10Stats{SessionsBySource: map[string]int{}, SessionsByMix: map[string]int{}, OpsByKind: map[string]int{}, RulesSeen: map[string]int{},
		VisitsBySite: map[string]int{}, VisitsByMode: map[string]int{}, EffectiveBySite: map[string]int{}, Probes: map[string]int{}}
	templates := map[string]bool{}
	eff := map[uint64]bool{}
	var samples []json.RawMessage
	var seeds []map[string]interface{}
	maxKeys := 0
	var wsum float64
	for _, st := range stats {
		tot.Sessions += st.Sessions
		tot.Ops += st.Ops
		tot.OpsSkipped += st.OpsSkipped
		tot.Observations += st.Observations
		tot.Compared += st.Compared
		tot.ComparedGlobal += st.ComparedGlobal
		tot.EffectiveSessions += st.EffectiveSessions
		tot.InvalidValidate += st.InvalidValidate
		tot.LoadErrors += st.LoadErrors
		if st.DistinctKeys > maxKeys {
			maxKeys = st.DistinctKeys
		}
		addMap(tot.SessionsBySource, st.SessionsBySource)
		addMap(tot.SessionsByMix, st.SessionsByMix)
		addMap(tot.OpsByKind, st.OpsByKind)
		addMap(tot.RulesSeen, st.RulesSeen)
		addMap(tot.VisitsBySite, st.VisitsBySite)
		addMap(tot.VisitsByMode, st.VisitsByMode)
		addMap(tot.EffectiveBySite, st.EffectiveBySite)
		addMap(tot.Probes, st.Probes)
		for _, t := range st.Templates {
			templates[t] = true
		}
		for _, h := range st.EffectiveHashes {
			eff[h] = true
		}
		if len(samples) < 4 && len(st.Samples) > 0 {
			samples = append(samples, st.Samples[len(st.Samples)-1])
		}
		seeds = append(seeds, map[string]interface{}{"worker": st.Worker, "first_session_seed": st.FirstSessionSeed, "last_session_seed": st.LastSessionSeed, "sessions": st.Sessions})
		wsum += st.WallS
	}
	var tl []string
	for t := range templates {
		tl = append(tl, t)
	}
	sort.Strings(tl)
	perHour := 0.0
	if wsum > 0 {
		perHour = float64(tot.Sessions) / (wsum / float64(len(stats))) * 3600
	}
	stuck := []string{}
	for _, p := range []string{"suggestion_message"} {
		if tot.Probes[p] == 0 {
			stuck = append(stuck, p)
		}
	}
	cov := map[string]interface{}{
		"evaluations":         tot.Sessions,
		"distinct_nontrivial": len(eff),
		"rule": "one evaluation = one simulated session: a seeded sequence of 4-40 operations (load/fresh/first/again/query) over a pool of <=3 schema texts and <=6 document texts, every map-range execution inside the library given a simulator-chosen key order. " +
			"A session is non-trivial when at least one map of >=2 keys was actually iterated in a non-canonical order (an 'effective' perturbation); distinct = distinct hashes of (op index, site, permutation, argument) over the session's effective visits plus its first schema and document text.",
		"samples":                             samples,
		"operations":                          tot.Ops,
		"operations_by_kind":                  tot.OpsByKind,
		"operations_skipped":                  tot.OpsSkipped,
		"observations":                        tot.Observations,
		"observations_compared":               tot.Compared + tot.ComparedGlobal,
		"compared_in_session":                 tot.Compared,
		"compared_across_sessions":            tot.ComparedGlobal,
		"distinct_text_keys_max_per_worker":   maxKeys,
		"invalid_validate_observations":       tot.InvalidValidate,
		"load_error_observations":             tot.LoadErrors,
		"distinct_error_templates":            len(tl),
		"error_templates":                     tl,
		"errors_by_rule":                      tot.RulesSeen,
		"sessions_by_source":                  tot.SessionsBySource,
		"sessions_by_mix":                     tot.SessionsByMix,
		"map_range_executions_by_site":        tot.VisitsBySite,
		"map_range_executions_by_permutation": tot.VisitsByMode,
		"effective_perturbations_by_site":     tot.EffectiveBySite,
		"effective_sessions":                  tot.EffectiveSessions,
		"fault_kinds_injected":                map[string]interface{}{"map_order_permutation": tot.VisitsByMode, "history_revalidation_ops": tot.OpsByKind["again"], "shared_schema_reuse_ops": tot.OpsByKind["first"] + tot.OpsByKind["query"]},
		"probes":                              tot.Probes,
		"probes_stuck_at_zero":                stuck,
		"simulated_runs_per_hour":             int(perHour),
		"simulated_time":                      "none: no code path reads a clock; logical steps are operations and map-range visits",
		"worker_seeds":                        seeds,
		"seed_derivation":                     "session seed = splitmix(splitmix(VERIF_SEED, worker+1000), n)",
		"workers":                             len(stats),
		"wall_budget_per_worker_s":            wall.Seconds(),
		"components":                          map[string]string{"real": "every library package (lexer, parser, ast, validator, validator/rules, formatter, gqlerror), instrumented with the map-order seam; yield points inert (single task)", "harness": "session generator, dictionary oracle, renderers", "stub": "none"},
	}
	return map[string]interface{}{
		"property_id": "C10", "tier": o.tier, "seed": int64(o.seed), "level": "exploration",
		"coverage": cov,
		"assumptions": []string{
			"every map iteration in library code goes through the seam (the instrumenter rewrites every range over a map and reflect MapKeys; the census lists anything else)",
			"Go leaves map iteration order unspecified, so any permutation is a legal execution; confirmation under the real runtime is attached to each report",
			"sampled: neither (schema, document) pairs nor permutations are enumerated",
		},
	}
}

func replayC10(o options) int {
	builds := prepareAll(prepOpts{instrumented: true, name: "inst"})
	cmdOut, err := run(scratch, nil, builds[0].bin, "c10-replay", o.replay)
	fmt.Print(cmdOut)
	if err == nil {
		fmt.Println("replay: violation NOT reproduced on the current tree")
		return 0
	}
	if strings.Contains(cmdOut, "REPRODUCED") {
		fmt.Printf("VIOLATION property=C10 replay=%s\n", o.replay)
		return 1
	}
	return 2
}
