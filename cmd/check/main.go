// Command check is the driver of /verif's deterministic-simulation checks.
//
//	check C10|C11 [--tier quick|thorough] [--workers N] [--wall D]
//	check C10|C11 --replay <file>
//	check selftest [--seeds N]
//
// Every invocation copies /repo's current working tree to a scratch directory
// outside /repo and /verif, instruments the copy, builds the harness against
// it, runs, and removes the directory again.
//
// Exit codes: 0 = the property held on everything explored (possibly with
// KNOWN-FINDING lines), 1 = VIOLATION (line on stdout names the replay file),
// 2 = the machinery could not do its job.
package main

import (
	"bytes"
	"context"
	"encoding/json"
	"flag"
	"fmt"
	"os"
	"os/exec"
	"path/filepath"
	"runtime"
	"sort"
	"strconv"
	"strings"
	"sync"
	"time"
)

const repoDir = "/repo"

// verifDir is /verif; VERIF_HOME overrides it (development in a git worktree
// of /verif while a long experiment is using the main one).
var verifDir = func() string {
	if v := os.Getenv("VERIF_HOME"); v != "" {
		return v
	}
	return "/verif"
}()

var (
	scratch     string
	keepScratch bool
	t0          = time.Now()
)

func logf(format string, a ...interface{}) {
	fmt.Fprintf(os.Stderr, "[check %6.1fs] "+format+"\n", append([]interface{}{time.Since(t0).Seconds()}, a...)...)
}

func cleanup() {
	if scratch != "" && !keepScratch {
		os.RemoveAll(scratch)
	}
}

func die(code int, format string, a ...interface{}) {
	fmt.Fprintf(os.Stderr, "check: "+format+"\n", a...)
	cleanup()
	os.Exit(code)
}

func goEnv() []string {
	env := os.Environ()
	env = append(env, "GOFLAGS=-mod=mod", "GOPROXY=off", "GOSUMDB=off", "GOTOOLCHAIN=local", "GONOSUMDB=*", "GONOSUMCHECK=1")
	return env
}

// procBackstop bounds every child process of the driver: whatever happens
// inside a child (a library call that blocks forever outside any watchdog's
// reach), the check ends - with exit 2, never with a verdict.
var procBackstop = 40 * time.Minute

// runBounded is run with a limit of its own; a child that exceeds it is stopped
// and reported as timedOut instead of ending the check.
func runBounded(limit time.Duration, dir string, name string, args ...string) (out string, err error, timedOut bool) {
	ctx, cancel := context.WithTimeout(context.Background(), limit)
	defer cancel()
	cmd := exec.CommandContext(ctx, name, args...)
	cmd.Dir = dir
	var buf bytes.Buffer
	cmd.Stdout = &buf
	cmd.Stderr = &buf
	err = cmd.Run()
	return buf.String(), err, ctx.Err() != nil
}

func run(dir string, env []string, name string, args ...string) (string, error) {
	ctx, cancel := context.WithTimeout(context.Background(), procBackstop)
	defer cancel()
	cmd := exec.CommandContext(ctx, name, args...)
	cmd.Dir = dir
	if env != nil {
		cmd.Env = env
	}
	var out bytes.Buffer
	cmd.Stdout = &out
	cmd.Stderr = &out
	err := cmd.Run()
	if ctx.Err() != nil {
		die(2, "child process %s %s did not finish within the driver's backstop of %v (stopped); last output:\n%s", filepath.Base(name), strings.Join(args, " "), procBackstop, tail(out.String(), 20))
	}
	return out.String(), err
}

// ---------- scratch preparation ----------

type build struct {
	dir        string // scratch copy
	bin        string
	instrument map[string]interface{}
}

type prepOpts struct {
	instrumented bool
	race         bool
	name         string
	edit         func(dir string) error // selftest only: source edit applied to the scratch copy
}

func copyTree(dst string) {
	if err := os.MkdirAll(dst, 0o755); err != nil {
		die(2, "mkdir %s: %v", dst, err)
	}
	if os.Getenv("VERIF_REPO_HEAD") != "" {
		// development only: /repo's HEAD instead of its working tree
		if out, err := run("", nil, "sh", "-c", fmt.Sprintf("git -C %s archive HEAD | tar -x -C %s", repoDir, dst)); err != nil {
			die(2, "git archive: %v\n%s", err, out)
		}
		if pf := os.Getenv("VERIF_REPO_PATCH"); pf != "" {
			if out, err := run(dst, nil, "patch", "-p1", "-s", "-i", pf); err != nil {
				die(2, "patch: %v\n%s", err, out)
			}
		}
		return
	}
	if out, err := run("", nil, "rsync", "-a", "--exclude", ".git", repoDir+"/", dst+"/"); err != nil {
		die(2, "rsync: %v\n%s", err, out)
	}
}

func prepare(o prepOpts) *build {
	b := &build{dir: filepath.Join(scratch, o.name)}
	copyTree(b.dir)
	if o.edit != nil {
		if err := o.edit(b.dir); err != nil {
			return nil
		}
	}
	// runtime package
	if err := os.MkdirAll(filepath.Join(b.dir, "verifsim"), 0o755); err != nil {
		die(2, "%v", err)
	}
	if out, err := run("", nil, "sh", "-c", fmt.Sprintf("cp -r %s/simrt/verifsim/. %s/verifsim/", verifDir, b.dir)); err != nil {
		die(2, "copy runtime: %v\n%s", err, out)
	}
	// go.mod: raise the language version for range-over-func
	gm := filepath.Join(b.dir, "go.mod")
	mod, err := os.ReadFile(gm)
	if err != nil {
		die(2, "read go.mod: %v", err)
	}
	lines := strings.Split(string(mod), "\n")
	for i, l := range lines {
		if strings.HasPrefix(l, "go ") {
			v := strings.TrimSpace(strings.TrimPrefix(l, "go "))
			parts := strings.Split(v, ".")
			if len(parts) >= 2 {
				minor, _ := strconv.Atoi(parts[1])
				if parts[0] == "1" && minor < 23 {
					lines[i] = "go 1.23"
				}
			}
		}
	}
	os.WriteFile(gm, []byte(strings.Join(lines, "\n")), 0o644)
	args := []string{b.dir}
	if !o.instrumented {
		args = []string{"-pristine", b.dir}
	}
	cmd := exec.Command(filepath.Join(verifDir, "bin", "instrument"), args...)
	cmd.Env = goEnv()
	var so, se bytes.Buffer
	cmd.Stdout, cmd.Stderr = &so, &se
	if err := cmd.Run(); err != nil {
		die(2, "cannot build: the tree in %s does not type-check or could not be instrumented:\n%s", repoDir, se.String())
	}
	if err := json.Unmarshal(so.Bytes(), &b.instrument); err != nil {
		die(2, "instrumenter output: %v\n%s", err, so.String())
	}
	// harness
	if out, err := run("", nil, "cp", "-r", filepath.Join(verifDir, "harness", "zz_verif"), b.dir+"/"); err != nil {
		die(2, "copy harness: %v\n%s", err, out)
	}
	b.bin = filepath.Join(scratch, o.name+".bin")
	bargs := []string{"build", "-trimpath"}
	if o.race {
		bargs = append(bargs, "-race")
	}
	bargs = append(bargs, "-o", b.bin, "./zz_verif/sim")
	if out, err := run(b.dir, goEnv(), "go", bargs...); err != nil {
		die(2, "cannot build the harness against the tree in %s (%s):\n%s", repoDir, o.name, out)
	}
	return b
}

func prepareAll(opts ...prepOpts) []*build {
	out := make([]*build, len(opts))
	var wg sync.WaitGroup
	for i, o := range opts {
		wg.Add(1)
		go func(i int, o prepOpts) {
			defer wg.Done()
			out[i] = prepare(o)
		}(i, o)
	}
	wg.Wait()
	return out
}

func newScratch() {
	base := os.Getenv("VERIF_SCRATCH")
	if base == "" {
		base = "/var/tmp"
	}
	d, err := os.MkdirTemp(base, "verif-")
	if err != nil {
		die(2, "scratch: %v", err)
	}
	scratch = d
}

func repoTree() string {
	out, err := run(repoDir, nil, "sh", "-c", "git rev-parse HEAD 2>/dev/null; git status --porcelain 2>/dev/null | sha1sum | cut -c1-12")
	if err != nil {
		return "unknown"
	}
	return strings.Join(strings.Fields(out), "+")
}

// ---------- known findings ----------

type knownFinding struct {
	Property string `json:"property"`
	Class    string `json:"class"`
	What     string `json:"what"`
}

type knownFile struct {
	Findings []knownFinding `json:"findings"`
	Fixed    []string       `json:"fixed"`
}

func loadKnown(prop string) []knownFinding {
	var kf knownFile
	b, err := os.ReadFile(filepath.Join(verifDir, "known_findings.json"))
	if err != nil {
		return nil
	}
	if err := json.Unmarshal(b, &kf); err != nil {
		die(2, "known_findings.json: %v", err)
	}
	var out []knownFinding
	for _, f := range kf.Findings {
		if f.Property == prop {
			out = append(out, f)
		}
	}
	return out
}

// ---------- worker fan-out ----------

type procResult struct {
	idx    int
	out    string
	err    error
	file   string
	exit   int
	stderr string
}

func runProcs(n int, mk func(i int) (bin string, args []string, env []string, outFile string)) []procResult {
	res := make([]procResult, n)
	var wg sync.WaitGroup
	sem := make(chan struct{}, runtime.NumCPU())
	for i := 0; i < n; i++ {
		wg.Add(1)
		go func(i int) {
			defer wg.Done()
			sem <- struct{}{}
			defer func() { <-sem }()
			bin, args, env, of := mk(i)
			ctx, cancel := context.WithTimeout(context.Background(), procBackstop)
			defer cancel()
			cmd := exec.CommandContext(ctx, bin, args...)
			cmd.Dir = scratch
			cmd.Env = append(os.Environ(), env...)
			var so, se bytes.Buffer
			cmd.Stdout, cmd.Stderr = &so, &se
			err := cmd.Run()
			if ctx.Err() != nil {
				err = fmt.Errorf("did not finish within the driver's backstop of %v (stopped): %v", procBackstop, err)
				se.WriteString("\n" + err.Error())
			}
			r := procResult{idx: i, out: so.String(), err: err, file: of, stderr: se.String()}
			if ee, ok := err.(*exec.ExitError); ok {
				r.exit = ee.ExitCode()
			} else if err != nil {
				r.exit = -1
			}
			res[i] = r
		}(i)
	}
	wg.Wait()
	return res
}

func readJSONFile(path string, v interface{}) error {
	b, err := os.ReadFile(path)
	if err != nil {
		return err
	}
	return json.Unmarshal(b, v)
}

// readJSONGeneric decodes into generic maps keeping every number exactly as
// written (json.Number): replay files carry 64-bit seeds and permutation
// arguments that float64 would round.
func readJSONGeneric(path string, v interface{}) error {
	b, err := os.ReadFile(path)
	if err != nil {
		return err
	}
	d := json.NewDecoder(bytes.NewReader(b))
	d.UseNumber()
	return d.Decode(v)
}

func writeJSONFile(path string, v interface{}) {
	b, err := json.MarshalIndent(v, "", " ")
	if err != nil {
		die(2, "marshal: %v", err)
	}
	os.MkdirAll(filepath.Dir(path), 0o755)
	if err := os.WriteFile(path+".tmp", append(b, '\n'), 0o644); err != nil {
		die(2, "write %s: %v", path, err)
	}
	if err := os.Rename(path+".tmp", path); err != nil {
		die(2, "rename: %v", err)
	}
}

func addMap(dst map[string]int, src map[string]int) {
	for k, v := range src {
		dst[k] += v
	}
}

func sortedKeys(m map[string]int) []string {
	var ks []string
	for k := range m {
		ks = append(ks, k)
	}
	sort.Strings(ks)
	return ks
}

func tail(s string, n int) string {
	lines := strings.Split(strings.TrimRight(s, "\n"), "\n")
	if len(lines) > n {
		lines = lines[len(lines)-n:]
	}
	return strings.Join(lines, "\n")
}

type options struct {
	prop       string
	tier       string
	seed       uint64
	workers    int
	wall       time.Duration
	replay     string
	sources    string
	minBudget  time.Duration // minimisation budget per violation class (0 = by tier)
	maxClasses int           // violation classes minimised and published per run
}

func main() {
	if len(os.Args) < 2 {
		die(2, "usage: check C10|C11|selftest [flags]")
	}
	prop := os.Args[1]
	fs := flag.NewFlagSet("check", flag.ExitOnError)
	tier := fs.String("tier", "", "quick | thorough (default: $VERIF_TIER or quick)")
	workers := fs.Int("workers", 0, "worker processes (default: number of CPUs)")
	wall := fs.Duration("wall", 0, "wall budget per worker (default by tier)")
	replay := fs.String("replay", "", "replay a violation file")
	keep := fs.Bool("keep-scratch", false, "do not delete the scratch directory")
	sources := fs.String("sources", "corpus,gen", "workload sources")
	seeds := fs.Int("seeds", 40, "selftest: number of seeds")
	minBudget := fs.Duration("min-budget", 0, "minimisation budget per violation class (default by tier)")
	maxClasses := fs.Int("max-classes", 5, "at most this many violation classes are minimised and published")
	fs.Parse(os.Args[2:])
	keepScratch = *keep
	o := options{prop: prop, tier: *tier, workers: *workers, wall: *wall, replay: *replay, sources: *sources, minBudget: *minBudget, maxClasses: *maxClasses}
	if o.tier == "" {
		o.tier = os.Getenv("VERIF_TIER")
	}
	if o.tier == "" {
		o.tier = "quick"
	}
	if o.tier != "quick" && o.tier != "thorough" {
		die(2, "unknown tier %q", o.tier)
	}
	o.seed = 1
	if s := os.Getenv("VERIF_SEED"); s != "" {
		v, err := strconv.ParseUint(s, 10, 63)
		if err != nil {
			// accept negative / large values by hashing the text
			var h uint64 = 1469598103934665603
			for i := 0; i < len(s); i++ {
				h = (h ^ uint64(s[i])) * 1099511628211
			}
			v = h >> 1
		}
		o.seed = v
	}
	if o.workers <= 0 {
		o.workers = runtime.NumCPU()
	}
	newScratch()
	defer cleanup()
	logf("scratch %s, repo tree %s, VERIF_SEED=%d tier=%s", scratch, repoTree(), o.seed, o.tier)
	code := 2
	switch prop {
	case "C10":
		if o.replay != "" {
			code = replayC10(o)
		} else {
			code = checkC10(o)
		}
	case "C11":
		if o.replay != "" {
			code = replayC11(o)
		} else {
			code = checkC11(o)
		}
	case "selftest":
		code = selftest(o, *seeds)
	case "warm":
		// build every flavour once so that the Go build cache (race-enabled
		// standard library included) is warm for the checks
		prepareAll(prepOpts{instrumented: true, name: "inst"}, prepOpts{instrumented: true, race: true, name: "race"}, prepOpts{instrumented: false, name: "prist"})
		logf("build cache warm")
		code = 0
	default:
		die(2, "unknown property %q (this framework decides C10 and C11; see MANIFEST.json not_applicable)", prop)
	}
	cleanup()
	os.Exit(code)
}
