package gen

import (
	"encoding/json"
	"fmt"
	"reflect"
	"sort"
	"strconv"
	"strings"

	"github.com/vektah/gqlparser/v2/gqlerror"
)

// RenderErrors is the canonical rendering of an error list used as the value
// of the C10 dictionary and in C11 result comparison: for each error, in
// order, Rule, Message, Locations, Path and Extensions (sorted keys).
func RenderErrors(errs gqlerror.List) string {
	if len(errs) == 0 {
		return "ok"
	}
	var b strings.Builder
	for i, e := range errs {
		b.WriteString(strconv.Itoa(i))
		b.WriteString(": ")
		renderError(&b, e)
		b.WriteByte('\n')
	}
	return b.String()
}

func renderError(b *strings.Builder, e *gqlerror.Error) {
	if e == nil {
		b.WriteString("<nil error>")
		return
	}
	b.WriteString("rule=")
	b.WriteString(e.Rule)
	b.WriteString(" msg=")
	b.WriteString(strconv.Quote(e.Message))
	b.WriteString(" loc=[")
	for j, l := range e.Locations {
		if j > 0 {
			b.WriteByte(' ')
		}
		b.WriteString(strconv.Itoa(l.Line))
		b.WriteByte(':')
		b.WriteString(strconv.Itoa(l.Column))
	}
	b.WriteString("] path=")
	b.WriteString(e.Path.String())
	b.WriteString(" ext=")
	RenderValue(b, map[string]interface{}(e.Extensions))
}

// RenderError renders the single error returned by LoadSchema and friends.
func RenderError(err error) string {
	if err == nil {
		return "ok"
	}
	var b strings.Builder
	switch e := err.(type) {
	case *gqlerror.Error:
		if e == nil {
			return "ok"
		}
		renderError(&b, e)
	case gqlerror.List:
		return RenderErrors(e)
	default:
		b.WriteString("error=")
		b.WriteString(strconv.Quote(err.Error()))
	}
	return b.String()
}

// RenderValue writes a deterministic rendering of a JSON-like value (sorted map
// keys). It avoids fmt and encoding/json on the common paths so that harness
// code does not exchange pooled buffers between tasks more than needed.
func RenderValue(b *strings.Builder, v interface{}) {
	switch x := v.(type) {
	case nil:
		b.WriteString("null")
	case bool:
		b.WriteString(strconv.FormatBool(x))
	case int:
		b.WriteString(strconv.Itoa(x))
	case int32:
		b.WriteString(strconv.FormatInt(int64(x), 10))
	case int64:
		b.WriteString(strconv.FormatInt(x, 10))
	case float64:
		b.WriteString(strconv.FormatFloat(x, 'g', -1, 64))
	case string:
		b.WriteString(strconv.Quote(x))
	case json.Number:
		b.WriteString("n:" + string(x))
	case []interface{}:
		b.WriteByte('[')
		for i, e := range x {
			if i > 0 {
				b.WriteByte(',')
			}
			RenderValue(b, e)
		}
		b.WriteByte(']')
	case map[string]interface{}:
		if x == nil {
			b.WriteString("{}")
			return
		}
		keys := make([]string, 0, len(x))
		for k := range x {
			keys = append(keys, k)
		}
		sort.Strings(keys)
		b.WriteByte('{')
		for i, k := range keys {
			if i > 0 {
				b.WriteByte(',')
			}
			b.WriteString(strconv.Quote(k))
			b.WriteByte(':')
			RenderValue(b, x[k])
		}
		b.WriteByte('}')
	default:
		b.WriteString(fmt.Sprintf("(%T)%v", v, v))
	}
}

func RenderValueString(v interface{}) string {
	var b strings.Builder
	RenderValue(&b, v)
	return b.String()
}

// Scribble overwrites a JSON-like value in place, the way a caller that owns a
// result may: every scalar becomes a marker, every map gains a key. Results of
// other calls, and the schema, must be unaffected.
func Scribble(v interface{}) { scribble(v, nil) }

// ScribbleExcept is Scribble but leaves alone every map and slice that is
// reachable from keep (values the caller passed in and will use again).
func ScribbleExcept(v interface{}, keep interface{}) {
	set := map[uintptr]bool{}
	collectContainers(keep, set)
	scribble(v, set)
}

func collectContainers(v interface{}, set map[uintptr]bool) {
	switch x := v.(type) {
	case map[string]interface{}:
		if x == nil {
			return
		}
		set[reflect.ValueOf(x).Pointer()] = true
		for _, e := range x {
			collectContainers(e, set)
		}
	case []interface{}:
		if len(x) == 0 {
			return
		}
		set[reflect.ValueOf(x).Pointer()] = true
		for _, e := range x {
			collectContainers(e, set)
		}
	}
}

func scribble(v interface{}, keep map[uintptr]bool) {
	switch x := v.(type) {
	case map[string]interface{}:
		if x == nil || keep[reflect.ValueOf(x).Pointer()] {
			return
		}
		for k, e := range x {
			switch e.(type) {
			case map[string]interface{}, []interface{}:
				scribble(e, keep)
			default:
				x[k] = "scribbled"
			}
		}
		x["__scribbled"] = true
	case []interface{}:
		if len(x) == 0 || keep[reflect.ValueOf(x).Pointer()] {
			return
		}
		for i, e := range x {
			switch e.(type) {
			case map[string]interface{}, []interface{}:
				scribble(e, keep)
			default:
				x[i] = "scribbled"
			}
		}
	}
}
