package gen

import (
	"fmt"
	"strconv"
	"strings"

	"github.com/vektah/gqlparser/v2/ast"
)

func defName(d *ast.Definition) string {
	if d == nil {
		return "-"
	}
	return d.Name
}

func typeStr(t *ast.Type) string {
	if t == nil {
		return "-"
	}
	return t.String()
}

// RenderAnnotations renders what validation wrote into a document: the links
// from fields, values, variables, directives and fragments to schema
// definitions. Used to compare a task's own document solo vs concurrent.
func RenderAnnotations(doc *ast.QueryDocument) string {
	var b strings.Builder
	for _, op := range doc.Operations {
		b.WriteString("op " + op.Name + "{")
		for _, v := range op.VariableDefinitions {
			b.WriteString("$" + v.Variable + ":" + defName(v.Definition) + ":used=" + strconv.FormatBool(v.Used) + ";")
			if v.DefaultValue != nil {
				annValue(&b, v.DefaultValue)
			}
			annDirectives(&b, v.Directives)
		}
		annDirectives(&b, op.Directives)
		annSelections(&b, op.SelectionSet)
		b.WriteString("}")
	}
	for _, f := range doc.Fragments {
		b.WriteString("frag " + f.Name + ":" + defName(f.Definition) + "{")
		annDirectives(&b, f.Directives)
		annSelections(&b, f.SelectionSet)
		b.WriteString("}")
	}
	return b.String()
}

func annValue(b *strings.Builder, v *ast.Value) {
	if v == nil {
		return
	}
	b.WriteString("v(" + typeStr(v.ExpectedType) + "," + defName(v.Definition))
	if v.VariableDefinition != nil {
		b.WriteString(",$" + v.VariableDefinition.Variable)
	}
	for _, c := range v.Children {
		b.WriteString("," + c.Name + "=")
		annValue(b, c.Value)
	}
	b.WriteString(")")
}

func annDirectives(b *strings.Builder, ds ast.DirectiveList) {
	for _, d := range ds {
		b.WriteString("@" + d.Name + "[")
		if d.Definition != nil {
			b.WriteString("def")
		}
		b.WriteString("," + defName(d.ParentDefinition) + "," + string(d.Location) + "]")
		for _, a := range d.Arguments {
			b.WriteString(a.Name + "=")
			annValue(b, a.Value)
		}
	}
}

func annSelections(b *strings.Builder, ss ast.SelectionSet) {
	for _, s := range ss {
		switch x := s.(type) {
		case *ast.Field:
			b.WriteString(x.Alias + ":" + x.Name + "<" + defName(x.ObjectDefinition) + ",")
			if x.Definition != nil {
				b.WriteString(x.Definition.Name + ":" + typeStr(x.Definition.Type))
			} else {
				b.WriteString("-")
			}
			b.WriteString(">")
			for _, a := range x.Arguments {
				b.WriteString(a.Name + "=")
				annValue(b, a.Value)
			}
			annDirectives(b, x.Directives)
			if len(x.SelectionSet) > 0 {
				b.WriteString("{")
				annSelections(b, x.SelectionSet)
				b.WriteString("}")
			}
			b.WriteString(";")
		case *ast.InlineFragment:
			b.WriteString("...on " + x.TypeCondition + "<" + defName(x.ObjectDefinition) + ">")
			annDirectives(b, x.Directives)
			b.WriteString("{")
			annSelections(b, x.SelectionSet)
			b.WriteString("};")
		case *ast.FragmentSpread:
			b.WriteString("..." + x.Name + "<" + defName(x.ObjectDefinition) + ",")
			if x.Definition != nil {
				b.WriteString("def")
			}
			b.WriteString(">")
			annDirectives(b, x.Directives)
			b.WriteString(";")
		}
	}
}

// RenderArgMaps resolves the arguments of every field and directive of a
// validated document (ast.Field.ArgumentMap / ast.Directive.ArgumentMap).
// argSkip, when set, makes RenderArgMaps leave out about a third of the fields.
var argSkip *Rng

// RenderArgMapsSome is RenderArgMaps on a seeded subset of the fields.
func RenderArgMapsSome(b *strings.Builder, doc *ast.QueryDocument, vars map[string]interface{}, r *Rng) {
	argSkip = r
	defer func() { argSkip = nil }()
	RenderArgMaps(b, doc, vars)
}

func RenderArgMaps(b *strings.Builder, doc *ast.QueryDocument, vars map[string]interface{}) {
	for _, op := range doc.Operations {
		argDirectives(b, "op:"+op.Name, op.Directives, vars)
		argSelections(b, "op:"+op.Name, op.SelectionSet, vars)
	}
	for _, f := range doc.Fragments {
		argDirectives(b, "frag:"+f.Name, f.Directives, vars)
		argSelections(b, "frag:"+f.Name, f.SelectionSet, vars)
	}
}

func argDirectives(b *strings.Builder, path string, ds ast.DirectiveList, vars map[string]interface{}) {
	for _, d := range ds {
		if d.Definition == nil {
			continue
		}
		b.WriteString("args " + path + "@" + d.Name + " = ")
		am, pan := safeArgMap(func() map[string]interface{} { return d.ArgumentMap(vars) })
		if pan != "" {
			b.WriteString("panic: " + pan)
		}
		RenderValue(b, am)
		ScribbleExcept(am, vars)
		b.WriteByte('\n')
		bump(&probes.argmaps)
	}
}

func argSelections(b *strings.Builder, path string, ss ast.SelectionSet, vars map[string]interface{}) {
	for _, s := range ss {
		switch x := s.(type) {
		case *ast.Field:
			p := path + "." + x.Alias
			if x.Definition != nil {
				if len(x.Definition.Arguments) > 0 {
					if argSkip != nil && argSkip.Chance(1, 3) {
						// an executor resolves one of several merged fields only
					} else {
						b.WriteString("args " + p + " = ")
						am, pan := safeArgMap(func() map[string]interface{} { return x.ArgumentMap(vars) })
						if pan != "" {
							b.WriteString("panic: " + pan) // argument resolution of this field failed; the others go on
						}
						RenderValue(b, am)
						ScribbleExcept(am, vars)
						b.WriteByte('\n')
						bump(&probes.argmaps)
					}
				}
			}
			argDirectives(b, p, x.Directives, vars)
			argSelections(b, p, x.SelectionSet, vars)
		case *ast.InlineFragment:
			argDirectives(b, path+"...", x.Directives, vars)
			argSelections(b, path, x.SelectionSet, vars)
		case *ast.FragmentSpread:
			argDirectives(b, path+"..."+x.Name, x.Directives, vars)
		}
	}
}

// safeArgMap resolves one argument map; a panic of the library (it panics on
// values it cannot convert) is that field's result, not the end of the walk.
// An injected abort of the simulator is passed on.
func safeArgMap(f func() map[string]interface{}) (m map[string]interface{}, pan string) {
	defer func() {
		if r := recover(); r != nil {
			if isSimAbort(r) {
				panic(r)
			}
			pan = fmt.Sprint(r)
		}
	}()
	return f(), ""
}
