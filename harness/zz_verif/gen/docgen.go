package gen

import (
	"strconv"
	"strings"
)

// Document generator: a type-directed walk of the generator's own schema model
// producing executable documents that are (mostly) valid by construction, then
// 0..n faults from a catalogue with at least one entry per validation rule.
// Documents are rendered one selection per line so that the line-based text
// shrinker of the minimisers works well. Everything derives from the Rng.

type docGen struct {
	r      *Rng
	s      *GSchema
	faults int // remaining fault budget
	noted  []string

	// per operation
	varDefs  []string          // rendered "$v: T = d"
	varTypes map[string]string // name -> type string
	nvar     int

	frags     []string
	fragNames []string
	fragType  map[string]string
	fragOpen  map[string]bool // under construction: spreading one of these would close a cycle
	nfrag     int
	nalias    int
	size      int // selections emitted; bounds the document
}

func (g *docGen) fault(name string, oneIn int) bool {
	if g.faults <= 0 || !g.r.Chance(1, oneIn) {
		return false
	}
	g.faults--
	g.noted = append(g.noted, name)
	return true
}

func (g *docGen) alias() string {
	g.nalias++
	return "a" + strconv.Itoa(g.nalias)
}

func (g *docGen) newVar(t string, withDefault string) string {
	// reuse a variable of the identical type half of the time
	if g.r.Chance(1, 2) {
		for i := 0; i < g.nvar; i++ {
			n := "v" + strconv.Itoa(i)
			if g.varTypes[n] == t {
				return n
			}
		}
	}
	n := "v" + strconv.Itoa(g.nvar)
	g.nvar++
	g.varTypes[n] = t
	d := "$" + n + ": " + t
	if withDefault != "" {
		d += " = " + withDefault
	}
	g.varDefs = append(g.varDefs, d)
	return n
}

// value renders an argument value of type t: a literal or a variable.
func (g *docGen) value(t *TRef, depth int) string {
	r := g.r
	wl := 40
	if t.Elem != nil {
		wl = 10 // a single wrong literal where a list is expected: list coercion paths
	}
	if g.fault("wrong-literal-kind", wl) {
		if r.Chance(1, 3) {
			// a multi-line block string where something else is expected
			return "\"\"\"\n    first line\n      second line\n    \"\"\""
		}
		switch t.Base() {
		case "Int", "Float":
			// (messages quote the literal: escapes and non-ASCII bytes included)
			return Pick(r, []string{`"notanumber"`, `"notanumber"`, `"not\ta\"number\""`, `"n\u00f6t 1"`, `"é1"`})
		case "String", "ID":
			return "RED"
		case "Boolean":
			return "1"
		}
		return "12.5"
	}
	if def := g.s.idx[t.Base()]; def != nil && t.Elem == nil {
		if def.Kind == "ENUM" && g.fault("misspelt-enum-value", 12) {
			return Misspell(r, Pick(r, def.Values))
		}
		if def.Kind == "ENUM" && g.fault("string-for-enum", 40) {
			if r.Chance(1, 2) {
				return `"` + Pick(r, def.Values) + `\n"`
			}
			return strconv.Quote(Pick(r, def.Values))
		}
		if def.Kind == "INPUT" && !def.OneOf && len(def.Fields) > 0 && g.fault("unknown-input-field", 12) {
			lit := GenLiteral(r, g.s, &TRef{Name: t.Name, NonNull: true}, depth, false)
			f := Pick(r, def.Fields)
			extra := Misspell(r, f.Name) + ": 1"
			if lit == "{}" {
				return "{" + extra + "}"
			}
			return lit[:len(lit)-1] + ", " + extra + "}"
		}
		if def.Kind == "INPUT" && !def.OneOf && len(def.Fields) > 0 && g.fault("duplicate-input-field", 30) {
			f := def.Fields[0]
			nt := f.Type.clone()
			nt.NonNull = true
			v := GenLiteral(r, g.s, nt, 1, false)
			return "{" + f.Name + ": " + v + ", " + f.Name + ": " + v + "}"
		}
		if def.Kind == "INPUT" && def.OneOf && len(def.Fields) > 1 && g.fault("oneof-two-keys", 10) {
			a, b := def.Fields[0], def.Fields[1]
			at, bt := a.Type.clone(), b.Type.clone()
			at.NonNull, bt.NonNull = true, true
			return "{" + a.Name + ": " + GenLiteral(r, g.s, at, 1, false) + ", " + b.Name + ": " + GenLiteral(r, g.s, bt, 1, false) + "}"
		}
	}
	if t.NonNull && g.fault("null-for-nonnull", 40) {
		return "null"
	}
	if r.Chance(1, 3) {
		// variable of exactly the argument's type (always an allowed position)
		vt := t.String()
		if t.NonNull && g.fault("nullable-var-in-nonnull-position", 10) {
			c := t.clone()
			c.NonNull = false
			vt = c.String()
			return "$" + g.newVar(vt, "")
		}
		def := ""
		if r.Chance(1, 3) {
			def = GenLiteral(r, g.s, t, 2, !t.NonNull)
		}
		if g.fault("undefined-variable", 25) {
			return "$undefinedVar"
		}
		return "$" + g.newVar(vt, def)
	}
	return GenLiteral(r, g.s, t, depth, true)
}

func (g *docGen) args(args []*GArg) string {
	r := g.r
	var parts []string
	for _, a := range args {
		req := a.Type.NonNull && a.Default == ""
		if req && g.fault("missing-required-arg", 8) {
			continue
		}
		if !req && r.Chance(1, 2) {
			continue
		}
		name := a.Name
		if g.fault("misspelt-arg", 12) {
			name = Misspell(r, a.Name)
		}
		parts = append(parts, name+": "+g.value(a.Type, 2))
		if g.fault("duplicate-arg", 30) {
			parts = append(parts, a.Name+": "+GenLiteral(r, g.s, a.Type, 1, false))
		}
	}
	if len(args) == 0 && g.fault("unknown-arg", 60) {
		parts = append(parts, "bogus: 1")
	}
	if len(parts) == 0 {
		return ""
	}
	return "(" + strings.Join(parts, ", ") + ")"
}

// directives renders 0..2 directive uses legal at loc.
func (g *docGen) directives(loc string) string {
	r := g.r
	out := ""
	if loc == "FIELD" || loc == "FRAGMENT_SPREAD" || loc == "INLINE_FRAGMENT" {
		if r.Chance(1, 8) {
			d := Pick(r, []string{"include", "skip"})
			v := Pick(r, []string{"true", "false"})
			if r.Chance(1, 3) {
				v = "$" + g.newVar("Boolean!", "")
			}
			out += " @" + d + "(if: " + v + ")"
			if g.fault("duplicate-directive", 10) {
				out += " @" + d + "(if: true)"
			}
		}
	}
	for _, d := range g.s.Dirs {
		ok := false
		for _, l := range d.Locs {
			if l == loc {
				ok = true
			}
		}
		if ok && r.Chance(1, 4) {
			out += " @" + d.Name + g.args(d.Args)
			if d.Repeatable && r.Chance(1, 12) { // (the library's uniqueness rule does not honour `repeatable`)
				out += " @" + d.Name + g.args(d.Args)
			}
		} else if !ok && g.fault("misplaced-directive", 40) {
			out += " @" + d.Name + g.args(d.Args)
		}
	}
	if g.fault("unknown-directive", 60) {
		out += " @" + Misspell(r, Pick(r, []string{"include", "skip", "deprecated"}))
	}
	if loc == "QUERY" && g.fault("misplaced-builtin-directive", 15) {
		out += " @include(if: true)"
	}
	return out
}

// scope is one merge scope of the overlapping-fields rule: response name ->
// signature already used, and for composite fields the scope of their
// sub-selections (two occurrences of the same response name merge).
type scope struct {
	sig  map[string]string
	kids map[string]*scope
}

func newScope() *scope { return &scope{sig: map[string]string{}, kids: map[string]*scope{}} }

func (t *GType) lonelyAbstract(s *GSchema) bool {
	return (t.Kind == "INTERFACE" || t.Kind == "UNION") && len(s.PossibleTypes(t.Name)) == 0
}

// selection renders the body of a selection set on type t (without braces).
func (g *docGen) selection(t *GType, depth int, ind string, sc *scope, inFrag bool) string {
	r := g.r
	var b strings.Builder
	if t == nil {
		return ind + "__typename\n"
	}
	switch t.Kind {
	case "UNION":
		if r.Chance(2, 3) {
			b.WriteString(ind + "__typename\n")
		}
		g.abstractSpreads(&b, t, depth, ind, sc, inFrag)
		if b.Len() == 0 {
			b.WriteString(ind + "__typename\n")
		}
		return b.String()
	case "OBJECT", "INTERFACE":
	default:
		return ind + "__typename\n"
	}
	n := r.Range(1, 4)
	for i := 0; i < n && g.size < 60; i++ {
		f := Pick(r, t.Fields)
		g.field(&b, t, f, depth, ind, sc, inFrag)
	}
	if r.Chance(1, 5) {
		if g.fault("misspelt-typename", 6) {
			b.WriteString(ind + Pick(r, []string{"__typenam", "typename", "__typeName", "_typename"}) + "\n")
		} else {
			b.WriteString(ind + "__typename\n")
		}
	}
	if t.Kind == "INTERFACE" && r.Chance(1, 2) {
		g.abstractSpreads(&b, t, depth, ind, sc, inFrag)
	}
	if t.Kind == "OBJECT" && depth > 0 && r.Chance(1, 6) {
		// inline fragment without / with own type condition, or on an interface it implements
		cond := ""
		target := t
		switch r.Intn(3) {
		case 1:
			cond = " on " + t.Name
		case 2:
			if len(t.Interfaces) > 0 {
				target = g.s.idx[Pick(r, t.Interfaces)]
				cond = " on " + target.Name
			}
		}
		b.WriteString(ind + "..." + cond + g.directives("INLINE_FRAGMENT") + " {\n")
		b.WriteString(g.selection(target, depth-1, ind+"  ", sc, inFrag))
		b.WriteString(ind + "}\n")
	}
	if depth > 0 && r.Chance(1, 5) && g.nfrag < 6 && (!t.lonelyAbstract(g.s) || r.Chance(1, 4)) {
		b.WriteString(ind + "..." + g.fragment(t, depth-1) + g.directives("FRAGMENT_SPREAD") + "\n")
	}
	if t.Name == g.s.Query && r.Chance(1, 10) {
		b.WriteString(ind + Pick(r, []string{
			"__schema { types { name } }",
			"__type(name: \"" + Pick(r, g.s.Types).Name + "\") { name fields { name } }",
			"__schema { queryType { name } directives { name } }",
		}) + "\n")
	}
	if t.Name == g.s.Query && r.Chance(1, 8) && g.nfrag < 6 {
		// the shape of the standard introspection query: fragments on __Type
		// spread below __schema / __type
		g.nfrag++
		ft, tr := "FullType"+strconv.Itoa(g.nfrag), "TypeRef"+strconv.Itoa(g.nfrag)
		g.frags = append(g.frags,
			"fragment "+ft+" on __Type {\n  kind\n  name\n  fields(includeDeprecated: true) {\n    name\n    type {\n      ..."+tr+"\n    }\n  }\n  interfaces {\n    ..."+tr+"\n  }\n}\n",
			"fragment "+tr+" on __Type {\n  kind\n  name\n  ofType {\n    kind\n    name\n  }\n}\n")
		if r.Chance(1, 2) {
			b.WriteString(ind + "__schema {\n" + ind + "  types {\n" + ind + "    ..." + ft + "\n" + ind + "  }\n" + ind + "}\n")
		} else {
			b.WriteString(ind + "__type(name: \"" + Pick(r, g.s.Types).Name + "\") {\n" + ind + "  ..." + ft + "\n" + ind + "}\n")
		}
	}
	if t.Name == g.s.Query && g.fault("deep-introspection", 25) {
		b.WriteString(ind + "__schema { types { fields { type { fields { type { fields { type { fields { type { name } } } } } } } } } }\n")
	}
	if b.Len() == 0 {
		b.WriteString(ind + "__typename\n")
	}
	return b.String()
}

func (g *docGen) abstractSpreads(b *strings.Builder, t *GType, depth int, ind string, sc *scope, inFrag bool) {
	r := g.r
	pts := g.s.PossibleTypes(t.Name)
	cands := append([]*GType{}, pts...)
	if t.Kind == "INTERFACE" {
		cands = append(cands, t)
	}
	// other abstract types that intersect
	for _, x := range g.s.byKind("INTERFACE", "UNION") {
		if x == t {
			continue
		}
		for _, p := range g.s.PossibleTypes(x.Name) {
			for _, q := range pts {
				if p == q && r.Chance(1, 4) {
					cands = append(cands, x)
				}
			}
		}
	}
	if len(pts) == 0 {
		// member-less abstract type: any spread "can never" match, the library
		// reports it; keep a few (they reach the possible-types lookup of a
		// type without members) but mostly stay valid
		if !r.Chance(1, 4) {
			return
		}
		cands = append(cands, t)
	}
	n := r.Range(0, 2)
	if t.Kind == "UNION" {
		n = r.Range(1, 3)
	}
	for i := 0; i < n && depth > 0 && g.size < 60; i++ {
		c := Pick(r, cands)
		name := c.Name
		target := c
		if g.fault("misspelt-type-condition", 8) {
			name = Misspell(r, c.Name)
			if g.s.idx[name] != nil {
				name += "q"
			}
		} else if g.fault("impossible-type-condition", 15) {
			o := Pick(r, g.s.byKind("OBJECT"))
			name, target = o.Name, o
		} else if g.fault("fragment-on-noncomposite", 30) {
			name = Pick(r, g.s.byKind("ENUM", "SCALAR", "INPUT")).Name
		}
		if r.Chance(1, 4) && g.nfrag < 6 {
			b.WriteString(ind + "..." + g.fragment(target, depth-1) + "\n")
			continue
		}
		// each inline fragment on a different concrete type is its own merge scope for differing parents,
		// but same-named fields must still have the same shape: alias aggressively
		b.WriteString(ind + "... on " + name + g.directives("INLINE_FRAGMENT") + " {\n")
		b.WriteString(g.selection(target, depth-1, ind+"  ", sc, inFrag))
		b.WriteString(ind + "}\n")
	}
}

func (g *docGen) field(b *strings.Builder, parent *GType, f *GField, depth int, ind string, sc *scope, inFrag bool) {
	r := g.r
	g.size++
	name := f.Name
	if g.fault("misspelt-field", 10) {
		name = Misspell(r, f.Name)
		if g.faults > 0 && r.Chance(1, 2) {
			// a second unknown field in the same selection set
			g.faults--
			g.noted = append(g.noted, "misspelt-field-2")
			b.WriteString(ind + Misspell(r, Pick(r, parent.Fields).Name) + "\n")
		}
	}
	argText := g.args(f.Args)
	sig := f.Name + argText + ":" + f.Type.String()
	resp := name
	al := ""
	if prev, used := sc.sig[resp]; (used && prev != sig) || inFrag || r.Chance(1, 5) {
		al = g.alias()
		resp = al
	}
	if g.fault("conflicting-alias", 15) && len(parent.Fields) > 1 {
		// two different fields under one response name
		other := parent.Fields[0]
		if other == f {
			other = parent.Fields[1]
		}
		if !isComposite(g.s.idx[other.Type.Base()]) && !isComposite(g.s.idx[f.Type.Base()]) {
			al = "clash"
			b.WriteString(ind + "clash: " + other.Name + g.argsNoFault(other.Args) + "\n")
			if g.faults > 0 && len(parent.Fields) > 2 && r.Chance(1, 2) {
				g.faults--
				g.noted = append(g.noted, "conflicting-alias-2")
				b.WriteString(ind + "clash2: " + parent.Fields[len(parent.Fields)-1].Name + "\n")
				b.WriteString(ind + "clash2: " + other.Name + g.argsNoFault(other.Args) + "\n")
			}
		}
	}
	sc.sig[resp] = sig
	kid := sc.kids[resp]
	if kid == nil {
		kid = newScope()
		sc.kids[resp] = kid
	}
	line := ind
	if r.Chance(1, 30) {
		line = ind + "# " + Pick(r, []string{"note", " spaced comment ", "TODO: check"}) + "\n" + ind
	}
	if al != "" {
		line += al + ": "
	}
	line += name + argText + g.directives("FIELD")
	bt := g.s.idx[f.Type.Base()]
	comp := isComposite(bt)
	if comp && g.fault("missing-subselection", 25) {
		b.WriteString(line + "\n")
		return
	}
	if !comp && g.fault("subselection-on-leaf", 25) {
		b.WriteString(line + " { " + Pick(r, fieldNamePool) + " }\n")
		return
	}
	if !comp {
		b.WriteString(line + "\n")
		return
	}
	b.WriteString(line + " {\n")
	if depth <= 0 {
		b.WriteString(g.leafOnly(bt, ind+"  "))
	} else {
		b.WriteString(g.selection(bt, depth-1, ind+"  ", kid, inFrag))
	}
	b.WriteString(ind + "}\n")
}

func (g *docGen) argsNoFault(args []*GArg) string {
	save := g.faults
	g.faults = 0
	s := g.args(args)
	g.faults = save
	return s
}

func (g *docGen) leafOnly(t *GType, ind string) string {
	var b strings.Builder
	if t.Kind == "OBJECT" || t.Kind == "INTERFACE" {
		for _, f := range t.Fields {
			if !isComposite(g.s.idx[f.Type.Base()]) && g.r.Chance(1, 2) {
				req := false
				for _, a := range f.Args {
					if a.Type.NonNull && a.Default == "" {
						req = true
					}
				}
				if !req {
					b.WriteString(ind + f.Name + "\n")
				}
			}
		}
	}
	if b.Len() == 0 {
		b.WriteString(ind + "__typename\n")
	}
	return b.String()
}

// fragment creates a named fragment on t (or on an abstract type t belongs to)
// and returns its name.
func (g *docGen) fragment(t *GType, depth int) string {
	r := g.r
	if len(g.fragNames) > 0 && r.Chance(1, 4) {
		// reuse an existing fragment whose type condition is t
		for _, n := range g.fragNames {
			if g.fragType[n] == t.Name && !g.fragOpen[n] {
				return n
			}
		}
	}
	g.nfrag++
	name := "F" + strconv.Itoa(g.nfrag)
	if g.fault("duplicate-fragment-name", 40) && len(g.fragNames) > 0 {
		name = g.fragNames[0]
	}
	g.fragNames = append(g.fragNames, name)
	g.fragType[name] = t.Name
	cond := t.Name
	if g.fault("misspelt-fragment-type", 10) {
		cond = Misspell(r, t.Name)
		if g.s.idx[cond] != nil {
			cond += "q"
		}
	}
	g.fragOpen[name] = true
	body := g.selection(t, depth, "  ", newScope(), true)
	g.fragOpen[name] = false
	if g.fault("fragment-cycle", 12) {
		body += "  ..." + name + "\n"
	} else if len(g.fragNames) > 1 && g.fault("fragment-cycle-2", 12) {
		// mutual recursion with an earlier fragment if the types are compatible enough; the
		// cycle rule fires whatever the types
		other := g.fragNames[0]
		body += "  ..." + other + "\n"
		for i, fr := range g.frags {
			if strings.HasPrefix(fr, "fragment "+other+" ") {
				g.frags[i] = strings.TrimSuffix(fr, "}\n") + "  ..." + name + "\n}\n"
				break
			}
		}
	}
	fvars := ""
	if r.Chance(1, 25) {
		// experimental fragment variable definitions (the parser accepts them)
		in := Pick(r, append(g.s.byKind("ENUM", "INPUT"), &GType{Name: "Int"}, &GType{Name: "String"}))
		tr := &TRef{Name: in.Name}
		def := ""
		if r.Chance(1, 2) {
			def = " = " + GenLiteral(r, g.s, tr, 1, false)
			if r.Chance(1, 3) {
				def = " = \"wrong kind\""
			}
		}
		fvars = "($fv" + strconv.Itoa(g.nfrag) + ": " + tr.String() + def + ")"
		if r.Chance(1, 2) {
			body += "  fvuse: __typename @include(if: $fv" + strconv.Itoa(g.nfrag) + ")\n"
		}
	}
	g.frags = append(g.frags, "fragment "+name+fvars+" on "+cond+g.directives("FRAGMENT_DEFINITION")+" {\n"+body+"}\n")
	return name
}

func (g *docGen) operation(kind, name string) string {
	r := g.r
	g.varDefs, g.varTypes, g.nvar = nil, map[string]string{}, 0
	root := g.s.idx[g.s.Query]
	loc := "QUERY"
	switch kind {
	case "mutation":
		root, loc = g.s.idx[g.s.Mutation], "MUTATION"
	case "subscription":
		root, loc = g.s.idx[g.s.Subscription], "SUBSCRIPTION"
	}
	var body string
	if kind == "subscription" && root != nil {
		// exactly one root field
		var b strings.Builder
		g.field(&b, root, Pick(r, root.Fields), 2, "  ", newScope(), false)
		if g.fault("subscription-two-roots", 4) {
			g.field(&b, root, Pick(r, root.Fields), 1, "  ", newScope(), false)
		} else if g.fault("subscription-root-through-fragment", 4) {
			// the second top-level field arrives through a named fragment, on the
			// subscription type itself or on some other existing type
			t := root
			if r.Chance(1, 2) {
				t = Pick(r, g.s.byKind("OBJECT"))
			}
			g.nfrag++
			fn := "S" + strconv.Itoa(g.nfrag)
			g.frags = append(g.frags, "fragment "+fn+" on "+t.Name+" {\n"+g.leafOnly(t, "  ")+"  extra: __typename\n}\n")
			b.WriteString("  ..." + fn + "\n")
		}
		body = b.String()
	} else if root == nil {
		body = "  " + Pick(r, fieldNamePool) + "\n"
		if t := g.s.T("Mutation"); kind == "mutation" && t != nil && len(t.Fields) > 0 && r.Chance(2, 3) {
			// unbound, but a type of the conventional name exists: select from it
			body = g.selection(t, r.Range(1, 3), "  ", newScope(), false)
		}
	} else {
		body = g.selection(root, r.Range(1, 4), "  ", newScope(), false)
	}
	dirs := g.directives(loc)
	// operation-level faults
	if g.fault("unused-variable", 10) {
		g.varDefs = append(g.varDefs, "$unusedVar: Int")
	}
	if len(g.varDefs) > 0 && g.fault("duplicate-variable", 20) {
		g.varDefs = append(g.varDefs, g.varDefs[0])
	}
	if g.fault("variable-of-output-type", 20) {
		g.varDefs = append(g.varDefs, "$outVar: "+Pick(r, g.s.byKind("OBJECT", "INTERFACE", "UNION")).Name)
		body += "  ov: __typename @include(if: $outVar)\n"
	}
	if g.fault("variable-of-unknown-type", 20) {
		g.varDefs = append(g.varDefs, "$unkVar: "+Misspell(r, Pick(r, g.s.byKind("INPUT", "ENUM")).Name)+"z")
	}
	head := kind
	if name != "" {
		head += " " + name
	}
	if len(g.varDefs) > 0 {
		// variable definitions may carry directives
		for i := range g.varDefs {
			g.varDefs[i] += g.directives("VARIABLE_DEFINITION")
		}
		head += "(" + strings.Join(g.varDefs, ", ") + ")"
	}
	if kind == "query" && name == "" && len(g.varDefs) == 0 && dirs == "" && r.Chance(1, 2) {
		return "{\n" + body + "}\n"
	}
	return head + dirs + " {\n" + body + "}\n"
}

// GenDoc renders one executable document over s with up to nfaults injected faults.
// It returns the text and the names of the faults actually injected.
func GenDoc(r *Rng, s *GSchema, nfaults int) (string, []string) {
	g := &docGen{r: r, s: s, faults: nfaults, fragType: map[string]string{}, fragOpen: map[string]bool{}}
	nops := r.Weighted([]int{2, 12, 4, 2}) // now and then a document of fragment definitions only
	var ops []string
	for i := 0; i < nops; i++ {
		kind := "query"
		switch r.Weighted([]int{6, 2, 1}) {
		case 1:
			if s.Mutation != "" || (s.T("Mutation") != nil && r.Chance(1, 2)) || g.fault("mutation-without-root", 3) {
				kind = "mutation"
			}
		case 2:
			if s.Subscription != "" {
				kind = "subscription"
			}
		}
		name := ""
		if nops > 1 || r.Chance(1, 2) {
			name = "Op" + strconv.Itoa(i)
			if i > 0 && g.fault("duplicate-operation-name", 6) {
				name = "Op0"
			}
			if i > 0 && g.fault("anonymous-among-named", 8) {
				name = ""
			}
		}
		ops = append(ops, g.operation(kind, name))
	}
	if nops == 0 {
		// fragments only: a couple of definitions, one spreading the other
		g.varDefs, g.varTypes, g.nvar = nil, map[string]string{}, 0
		t := Pick(r, s.byKind("OBJECT", "INTERFACE"))
		a := g.fragment(t, 2)
		g.nfrag++
		g.frags = append(g.frags, "fragment Top"+strconv.Itoa(g.nfrag)+" on "+t.Name+" {\n  ..."+a+"\n  __typename\n}\n")
		return strings.Join(g.frags, "\n"), g.noted
	}
	// document-level faults that are always applicable: spend what is left
	for tries := 0; g.faults > 0 && tries < 6; tries++ {
		switch r.Intn(7) {
		case 6:
			// the same response name twice on the root, both with wide
			// sub-selections (>= 4 entries each) that disagree on what "x" is
			noReq := func(f *GField) bool {
				for _, a := range f.Args {
					if a.Type.NonNull && a.Default == "" {
						return false
					}
				}
				return true
			}
			root := s.idx[s.Query]
			done := false
			for _, f := range root.Fields {
				bt := s.idx[f.Type.Base()]
				if bt == nil || (bt.Kind != "OBJECT" && bt.Kind != "INTERFACE") || !noReq(f) {
					continue
				}
				var leaves []string
				for _, lf := range bt.Fields {
					if !isComposite(s.idx[lf.Type.Base()]) && noReq(lf) {
						leaves = append(leaves, lf.Name)
					}
				}
				if len(leaves) < 2 {
					continue
				}
				w := r.Range(4, 6)
				sub := func(x string, tag string) string {
					out := "    x: " + x + "\n"
					for i := 1; i < w; i++ {
						if i%2 == 1 {
							out += "    " + tag + strconv.Itoa(i) + ": " + leaves[i%len(leaves)] + "\n"
						} else {
							out += "    " + tag + strconv.Itoa(i) + ": __typename\n"
						}
					}
					return out
				}
				a, b := leaves[0], leaves[1]
				if r.Chance(1, 2) {
					a, b = b, a
				}
				sa, sb := sub(a, "p"), sub(b, "q")
				if r.Chance(1, 2) {
					// two conflicting response names, one of them selected twice on
					// one side: several sub-reasons, two of which render identically
					sa += "    y: " + b + "\n"
					sb += "    y: " + a + "\n    x: " + b + "\n"
				}
				add := "  box: " + f.Name + " {\n" + sa + "  }\n  box: " + f.Name + " {\n" + sb + "  }\n"
				ops[0] = strings.TrimSuffix(ops[0], "}\n") + add + "}\n"
				done = true
				break
			}
			if done {
				g.faults--
				g.noted = append(g.noted, "wide-sub-conflict")
			}
		case 4, 5:
			// conflicts reached through nested fragment spreads: x is selected
			// directly and, under other field names, inside 2-3 fragments that a
			// wrapper fragment spreads
			g.faults--
			g.noted = append(g.noted, "nested-fragment-conflicts")
			root := s.idx[s.Query]
			leaves := []string{"__typename"}
			for _, f := range root.Fields {
				if !isComposite(s.idx[f.Type.Base()]) {
					req := false
					for _, a := range f.Args {
						if a.Type.NonNull && a.Default == "" {
							req = true
						}
					}
					if !req {
						leaves = append(leaves, f.Name)
					}
				}
			}
			g.nfrag++
			base := "N" + strconv.Itoa(g.nfrag)
			k := r.Range(2, 3)
			outer := "fragment " + base + "Outer on " + root.Name + " {\n"
			for i := 0; i < k; i++ {
				outer += "  ..." + base + "I" + strconv.Itoa(i) + "\n"
				g.frags = append(g.frags, "fragment "+base+"I"+strconv.Itoa(i)+" on "+root.Name+" {\n  x: "+leaves[(i+1)%len(leaves)]+"\n  y"+strconv.Itoa(i)+": __typename\n}\n")
			}
			g.frags = append(g.frags, outer+"}\n")
			ops[0] = strings.TrimSuffix(ops[0], "}\n") + "  x: " + leaves[0] + "\n  ..." + base + "Outer\n}\n"
		case 0:
			g.faults--
			g.noted = append(g.noted, "unused-fragment")
			t := Pick(r, s.byKind("OBJECT", "INTERFACE"))
			g.nfrag++
			g.frags = append(g.frags, "fragment Unused"+strconv.Itoa(g.nfrag)+" on "+t.Name+" {\n"+g.leafOnly(t, "  ")+"}\n")
		case 1:
			g.faults--
			g.noted = append(g.noted, "unknown-fragment-spread")
			ops[0] = strings.TrimSuffix(ops[0], "}\n") + "  ...NoSuchFragment\n}\n"
		case 2:
			g.faults--
			g.noted = append(g.noted, "fragment-on-unknown-type-tie")
			// drop the last character of a family name: several candidates at the same edit distance
			t := Pick(r, s.Types)
			nm := t.Name
			if len(nm) > 2 {
				nm = nm[:len(nm)-1]
			}
			if s.idx[nm] != nil {
				nm += "q"
			}
			g.nfrag++
			fn := "T" + strconv.Itoa(g.nfrag)
			g.frags = append(g.frags, "fragment "+fn+" on "+nm+" {\n  __typename\n}\n")
			ops[0] = strings.TrimSuffix(ops[0], "}\n") + "  ..." + fn + "\n}\n"
		case 3:
			g.faults--
			g.noted = append(g.noted, "unknown-field-on-root")
			root := s.idx[s.Query]
			ops[0] = strings.TrimSuffix(ops[0], "}\n") + "  " + Misspell(r, Pick(r, root.Fields).Name) + "\n}\n"
		}
	}
	all := append(ops, g.frags...)
	if r.Chance(1, 3) {
		// fragments first
		all = append(append([]string{}, g.frags...), ops...)
	}
	return strings.Join(all, "\n"), g.noted
}
