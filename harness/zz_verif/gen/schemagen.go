package gen

import (
	"sort"
	"strconv"
	"strings"
)

// The typed generator keeps its own model of the schema it emits and renders
// SDL from it; it never asks the library under test what a schema contains.
// Everything is a pure function of the Rng handed in.

type TRef struct {
	Name    string
	NonNull bool
	Elem    *TRef
}

func (t *TRef) String() string {
	var s string
	if t.Elem != nil {
		s = "[" + t.Elem.String() + "]"
	} else {
		s = t.Name
	}
	if t.NonNull {
		s += "!"
	}
	return s
}

func (t *TRef) Base() string {
	for t.Elem != nil {
		t = t.Elem
	}
	return t.Name
}

func (t *TRef) clone() *TRef {
	if t == nil {
		return nil
	}
	c := *t
	c.Elem = t.Elem.clone()
	return &c
}

func (t *TRef) setBase(n string) {
	for t.Elem != nil {
		t = t.Elem
	}
	t.Name = n
}

type GArg struct {
	Name    string
	Type    *TRef
	Default string // literal text; "" = none
	Dirs    string
}

type GField struct {
	Comment     string // "# ..." line before the field
	ArgComments bool   // arguments on their own lines, with # comments between them
	Name        string
	Type        *TRef
	Args        []*GArg
	Default     string // input fields only
	Dirs        string
	Desc        string
}

type GType struct {
	Kind       string // OBJECT INTERFACE UNION ENUM INPUT SCALAR
	Name       string
	Fields     []*GField
	Interfaces []string
	Members    []string
	Values     []string
	ValueDirs  map[string]string
	OneOf      bool
	Desc       string
	Dirs       string
	ExtFrom    int  // fields [ExtFrom:] are rendered in an `extend` block (0 = none)
	Lonely     bool // interface kept without implementers on purpose
	Twice      bool // fault: definition rendered twice
}

type GDir struct {
	Name       string
	Args       []*GArg
	Locs       []string
	Repeatable bool
	Twice      bool
}

type GSchema struct {
	Types        []*GType
	Dirs         []*GDir
	Query        string
	Mutation     string
	Subscription string
	SchemaBlock  bool
	// ExtendSchemaMut: no schema definition; "extend schema { mutation: <Mutation> }"
	ExtendSchemaMut bool
	SchemaDirs      string
	BadRoot         string   // fault: schema block names a missing type
	Extra           []string // raw chunks: extensions of built-in (prelude) types
	Faults          []string
	FaultyTypes     map[string]bool // types InjectSchemaFaults changed
	dirsFirst       bool
	dirCut          int
	idx             map[string]*GType
}

func (s *GSchema) T(name string) *GType { return s.idx[name] }

func (s *GSchema) add(t *GType) *GType {
	s.Types = append(s.Types, t)
	s.idx[t.Name] = t
	return t
}

func (t *GType) field(name string) *GField {
	for _, f := range t.Fields {
		if f.Name == name {
			return f
		}
	}
	return nil
}

func (t *GType) implements(i string) bool {
	for _, x := range t.Interfaces {
		if x == i {
			return true
		}
	}
	return false
}

func (s *GSchema) byKind(kinds ...string) []*GType {
	var out []*GType
	for _, t := range s.Types {
		for _, k := range kinds {
			if t.Kind == k {
				out = append(out, t)
			}
		}
	}
	return out
}

// PossibleTypes of an abstract or object type, by the generator's own model.
func (s *GSchema) PossibleTypes(name string) []*GType {
	t := s.idx[name]
	if t == nil {
		return nil
	}
	switch t.Kind {
	case "OBJECT":
		return []*GType{t}
	case "UNION":
		var out []*GType
		for _, m := range t.Members {
			if x := s.idx[m]; x != nil && x.Kind == "OBJECT" {
				out = append(out, x)
			}
		}
		return out
	case "INTERFACE":
		var out []*GType
		for _, x := range s.Types {
			if x.Kind == "OBJECT" && x.implements(name) {
				out = append(out, x)
			}
		}
		return out
	}
	return nil
}

func isComposite(t *GType) bool {
	return t != nil && (t.Kind == "OBJECT" || t.Kind == "INTERFACE" || t.Kind == "UNION")
}

func isInputKind(t *GType) bool {
	return t != nil && (t.Kind == "SCALAR" || t.Kind == "ENUM" || t.Kind == "INPUT")
}

var builtinScalars = []string{"Int", "Float", "String", "Boolean", "ID"}

var typeFamilies = [][]string{
	{"Pet", "Pen", "Pea", "Peb", "Pec", "Ped", "Pef", "Pem"},
	{"Dog", "Dot", "Doc", "Dig", "Dug", "Don"},
	{"Cat", "Car", "Cab", "Can", "Cap", "Cam"},
	{"Node", "Nod", "Mode", "Code", "Nodes", "Nude"},
	{"Item", "Items", "Iten", "Stem", "Idem"},
	{"User", "Users", "Usher", "Uses", "Useq"},
}
var fieldNamePool = []string{"name", "nane", "mane", "nam", "names", "id", "ids", "idx", "age", "ago", "agee", "owner", "owners", "friend", "friends", "fiend", "kind", "king", "size", "site", "sire", "tags", "tag", "tap"}
var argNamePool = []string{"first", "firs", "fist", "after", "afte", "alter", "where", "were", "order", "older", "id", "ids", "flag", "flat"}
var enumValuePool = []string{"RED", "REDD", "READ", "ROD", "GREEN", "GREED", "BLUE", "BLUR", "BLUES", "UP", "UPS", "DOWN", "DAWN"}
var dirNamePool = []string{"auth", "auto", "aut", "cache", "cached", "cach", "tagged", "tagger"}
var execLocs = []string{"QUERY", "MUTATION", "SUBSCRIPTION", "FIELD", "FRAGMENT_DEFINITION", "FRAGMENT_SPREAD", "INLINE_FRAGMENT", "VARIABLE_DEFINITION"}
var tsLocs = []string{"SCHEMA", "SCALAR", "OBJECT", "FIELD_DEFINITION", "ARGUMENT_DEFINITION", "INTERFACE", "UNION", "ENUM", "ENUM_VALUE", "INPUT_OBJECT", "INPUT_FIELD_DEFINITION"}

type namer struct {
	r    *Rng
	pool []string
	used map[string]bool
}

func (n *namer) fresh() string {
	for try := 0; try < 12; try++ {
		c := Pick(n.r, n.pool)
		if !n.used[c] {
			n.used[c] = true
			return c
		}
	}
	for i := 2; ; i++ {
		c := Pick(n.r, n.pool) + strconv.Itoa(i)
		if !n.used[c] {
			n.used[c] = true
			return c
		}
	}
}

func (n *namer) freshFrom(pool []string, scope map[string]bool) string {
	for try := 0; try < 12; try++ {
		c := Pick(n.r, pool)
		if !scope[c] {
			scope[c] = true
			return c
		}
	}
	for i := 2; ; i++ {
		c := Pick(n.r, pool) + strconv.Itoa(i)
		if !scope[c] {
			scope[c] = true
			return c
		}
	}
}

func wrap(r *Rng, base string) *TRef {
	t := &TRef{Name: base}
	switch r.Weighted([]int{6, 4, 2, 1, 1, 1, 1}) {
	case 0:
	case 1:
		t.NonNull = true
	case 2:
		t = &TRef{Elem: t}
	case 3:
		t.NonNull = true
		t = &TRef{Elem: t}
	case 4:
		t = &TRef{Elem: t, NonNull: true}
	case 5:
		t.NonNull = true
		t = &TRef{Elem: t, NonNull: true}
	case 6:
		t = &TRef{Elem: &TRef{Elem: t}}
	}
	return t
}

var descPool = []string{"", "", "", "", "A thing.", "Says \"hi\".", "line one\nline two", "  padded  ", "back\\slash"}

func renderDesc(d, indent string) string {
	if d == "" {
		return ""
	}
	if strings.Contains(d, "\n") {
		return indent + `"""` + "\n" + indent + strings.ReplaceAll(d, "\n", "\n"+indent) + "\n" + indent + `"""` + "\n"
	}
	return indent + strconv.Quote(d) + "\n"
}

// GenSchema builds a schema model that is valid by construction.
func GenSchema(r *Rng) *GSchema {
	s := &GSchema{idx: map[string]*GType{}}
	nm := &namer{r: r, used: map[string]bool{"Query": true, "Mutation": true, "Subscription": true}}
	nf := r.Range(1, 3)
	perm := r.Intn(len(typeFamilies))
	for i := 0; i < nf; i++ {
		nm.pool = append(nm.pool, typeFamilies[(perm+i)%len(typeFamilies)]...)
	}
	// scalars
	for i, n := 0, r.Weighted([]int{3, 3, 1}); i < n; i++ {
		s.add(&GType{Kind: "SCALAR", Name: nm.fresh(), Desc: Pick(r, descPool)})
	}
	// enums
	for i, n := 0, r.Range(1, 3); i < n; i++ {
		e := &GType{Kind: "ENUM", Name: nm.fresh(), Desc: Pick(r, descPool), ValueDirs: map[string]string{}}
		sc := map[string]bool{}
		for j, m := 0, r.Range(1, 7); j < m; j++ {
			v := nm.freshFrom(enumValuePool, sc)
			e.Values = append(e.Values, v)
			if r.Chance(1, 8) {
				e.ValueDirs[v] = ` @deprecated(reason: "old")`
			}
		}
		s.add(e)
	}
	// directives (declared early so that definitions can use them)
	dsc := map[string]bool{}
	for i, n := 0, r.Weighted([]int{2, 3, 2, 1}); i < n; i++ {
		d := &GDir{Name: nm.freshFrom(dirNamePool, dsc), Repeatable: r.Chance(1, 4)}
		ls := map[string]bool{}
		for j, m := 0, r.Range(1, 4); j < m; j++ {
			l := Pick(r, execLocs)
			if r.Chance(1, 3) {
				l = Pick(r, tsLocs)
			}
			if !ls[l] {
				ls[l] = true
				d.Locs = append(d.Locs, l)
			}
		}
		s.Dirs = append(s.Dirs, d)
	}
	// input objects: non-null references only to earlier input objects
	var inputs []*GType
	for i, n := 0, r.Range(1, 4); i < n; i++ {
		in := &GType{Kind: "INPUT", Name: nm.fresh(), Desc: Pick(r, descPool), OneOf: r.Chance(1, 5)}
		inputs = append(inputs, in)
		s.add(in)
	}
	wideInputs := r.Chance(1, 3) // a schema has several wide input objects, or none
	for i, in := range inputs {
		sc := map[string]bool{}
		nfields := r.Range(1, 5)
		if wideInputs && r.Chance(2, 3) {
			nfields = r.Range(9, 12) // wide input objects (indexed lookups kick in at sizes like these)
		}
		for j, m := 0, nfields; j < m; j++ {
			f := &GField{Name: nm.freshFrom(fieldNamePool, sc), Desc: Pick(r, descPool)}
			var base string
			switch r.Weighted([]int{5, 2, 2}) {
			case 0:
				base = Pick(r, builtinScalars)
			case 1:
				base = Pick(r, s.byKind("ENUM", "SCALAR")).Name
			case 2:
				base = Pick(r, inputs).Name
			}
			if in.OneOf && j == 0 {
				base = Pick(r, builtinScalars) // a oneOf literal must have a finite choice
			}
			f.Type = wrap(r, base)
			if bt := s.idx[base]; bt != nil && bt.Kind == "INPUT" {
				// a required chain must be finite: non-null only towards earlier inputs
				later := true
				for k := 0; k < i; k++ {
					if inputs[k] == bt {
						later = false
					}
				}
				if later || bt.OneOf {
					stripNonNull(f.Type)
				}
			}
			if in.OneOf {
				f.Type.NonNull = false
			}
			in.Fields = append(in.Fields, f)
		}
	}
	// defaults for input fields (after all inputs have their fields)
	for _, in := range inputs {
		if in.OneOf {
			continue
		}
		for _, f := range in.Fields {
			if r.Chance(1, 3) {
				f.Default = GenLiteral(r, s, f.Type, 2, false)
				if f.Type.Elem == nil && f.Type.Name == "Int" && r.Chance(1, 2) {
					f.Default = "99999999999999999999" // loads; cannot be evaluated as an Int
				}
			}
		}
	}
	// argument-taking directives
	for _, d := range s.Dirs {
		sc := map[string]bool{}
		for j, m := 0, r.Weighted([]int{3, 3, 1}); j < m; j++ {
			d.Args = append(d.Args, genArg(r, s, nm, sc))
		}
	}
	// output types: names first
	var ifaces, objs, unions []*GType
	for i, n := 0, r.Range(1, 4); i < n; i++ {
		ifaces = append(ifaces, s.add(&GType{Kind: "INTERFACE", Name: nm.fresh(), Desc: Pick(r, descPool)}))
	}
	for i, n := 0, r.Range(2, 9); i < n; i++ {
		objs = append(objs, s.add(&GType{Kind: "OBJECT", Name: nm.fresh(), Desc: Pick(r, descPool)}))
	}
	for i, n := 0, r.Weighted([]int{2, 3, 2}); i < n; i++ {
		unions = append(unions, s.add(&GType{Kind: "UNION", Name: nm.fresh(), Desc: Pick(r, descPool)}))
	}
	s.Query = "Query"
	if r.Chance(1, 4) {
		s.Query = nm.fresh() + "Root"
		s.SchemaBlock = true
	}
	q := s.add(&GType{Kind: "OBJECT", Name: s.Query})
	objsAndRoots := append([]*GType{}, objs...)
	objsAndRoots = append(objsAndRoots, q)
	if r.Chance(1, 2) {
		s.Mutation = "Mutation"
		if s.SchemaBlock {
			s.Mutation = nm.fresh() + "Mut"
		}
		objsAndRoots = append(objsAndRoots, s.add(&GType{Kind: "OBJECT", Name: s.Mutation}))
	}
	if r.Chance(2, 5) {
		s.Subscription = "Subscription"
		if s.SchemaBlock {
			s.Subscription = nm.fresh() + "Sub"
		}
		objsAndRoots = append(objsAndRoots, s.add(&GType{Kind: "OBJECT", Name: s.Subscription}))
	}
	if !s.SchemaBlock && s.Mutation == "" && r.Chance(1, 4) {
		// no schema definition, but a schema EXTENSION that binds the mutation
		// root to a type of another name
		s.Mutation = nm.fresh() + "Cmds"
		s.ExtendSchemaMut = true
		objsAndRoots = append(objsAndRoots, s.add(&GType{Kind: "OBJECT", Name: s.Mutation}))
	}
	if s.SchemaBlock && s.Mutation == "" && r.Chance(1, 2) {
		// a conventionally named type that the schema block does NOT bind: a
		// mutation against this schema has no root, whatever the type is called
		objsAndRoots = append(objsAndRoots, s.add(&GType{Kind: "OBJECT", Name: "Mutation"}))
	}
	if len(ifaces) > 1 && r.Chance(1, 2) {
		Pick(r, ifaces).Lonely = true
	}
	outBases := func() string {
		switch r.Weighted([]int{5, 2, 3, 2, 1}) {
		case 0:
			return Pick(r, builtinScalars)
		case 1:
			return Pick(r, s.byKind("ENUM", "SCALAR")).Name
		case 2:
			return Pick(r, objs).Name
		case 3:
			return Pick(r, ifaces).Name
		}
		if len(unions) > 0 {
			return Pick(r, unions).Name
		}
		return Pick(r, objs).Name
	}
	allowDupArg := false // only on root types: they take no part in interface conformance
	genOutField := func(sc map[string]bool) *GField {
		f := &GField{Name: nm.freshFrom(fieldNamePool, sc), Desc: Pick(r, descPool)}
		f.Type = wrap(r, outBases())
		if r.Chance(1, 3) {
			asc := map[string]bool{}
			na := r.Range(1, 3)
			if r.Chance(1, 5) {
				na = r.Range(4, 5)
			}
			for j, m := 0, na; j < m; j++ {
				f.Args = append(f.Args, genArg(r, s, nm, asc))
			}
			if allowDupArg && len(f.Args) >= 3 && r.Chance(1, 3) {
				// the same argument name twice, with another type (the loader accepts it)
				d := *f.Args[r.Intn(len(f.Args))]
				d.Type = wrap(r, Pick(r, builtinScalars))
				d.Type.NonNull = false
				d.Default = ""
				f.Args = append(f.Args, &d)
			}
		}
		if r.Chance(1, 10) {
			f.Dirs = " @deprecated"
		}
		if r.Chance(1, 8) {
			f.Comment = Pick(r, []string{"note", " padded comment ", "why: history"})
		}
		if len(f.Args) > 0 && r.Chance(1, 4) {
			f.ArgComments = true
		}
		return f
	}
	// interfaces, possibly implementing earlier ones
	for i, it := range ifaces {
		sc := map[string]bool{}
		if i > 0 && r.Chance(1, 3) {
			par := ifaces[r.Intn(i)]
			it.Interfaces = append(append([]string{}, par.Interfaces...), par.Name)
			for _, f := range par.Fields {
				cf := *f
				it.Fields = append(it.Fields, &cf)
				sc[f.Name] = true
			}
		}
		for j, m := 0, r.Range(1, 3); j < m; j++ {
			it.Fields = append(it.Fields, genOutField(sc))
		}
	}
	// objects
	type narrowing struct {
		obj   *GType
		field string
		iface string
	}
	var narrowLater []narrowing
	for _, o := range objsAndRoots {
		sc := map[string]bool{}
		isRoot := o.Name == s.Query || o.Name == s.Mutation || o.Name == s.Subscription
		if !isRoot {
			for k, m := 0, r.Weighted([]int{3, 4, 2, 1}); k < m; k++ {
				it := Pick(r, ifaces)
				if it.Lonely || o.implements(it.Name) {
					continue
				}
				need := append(append([]string{}, it.Interfaces...), it.Name)
				ok := true
				for _, n := range need {
					if s.idx[n].Lonely {
						ok = false
					}
					for _, f := range s.idx[n].Fields {
						if g := o.field(f.Name); g != nil && !sameSignature(f, g) {
							ok = false
						}
					}
				}
				if !ok {
					continue
				}
				for _, n := range need {
					if o.implements(n) {
						continue
					}
					o.Interfaces = append(o.Interfaces, n)
					for _, f := range s.idx[n].Fields {
						if o.field(f.Name) == nil {
							cf := *f
							cf.Type = f.Type.clone()
							if !cf.Type.NonNull && r.Chance(1, 5) {
								cf.Type.NonNull = true // covariant narrowing
							}
							if bt := s.idx[cf.Type.Base()]; bt != nil && bt.Kind == "INTERFACE" && !bt.Lonely && r.Chance(1, 2) {
								// covariant narrowing by named type: an implementer of
								// the interface the interface field returns (filled
								// in below once all objects know their interfaces)
								narrowLater = append(narrowLater, narrowing{o, cf.Name, bt.Name})
							}
							if r.Chance(1, 6) {
								// additional optional argument
								asc := map[string]bool{}
								for _, a := range cf.Args {
									asc[a.Name] = true
								}
								a := genArg(r, s, nm, asc)
								if a.Type.NonNull && a.Default == "" {
									a.Type.NonNull = false
								}
								cf.Args = append(append([]*GArg{}, cf.Args...), a)
							}
							o.Fields = append(o.Fields, &cf)
							sc[f.Name] = true
						}
					}
				}
			}
			if len(o.Interfaces) > 1 && r.Chance(1, 2) {
				// deliberately unsorted
				sort.Sort(sort.Reverse(sort.StringSlice(o.Interfaces)))
			}
		}
		n := r.Range(1, 5)
		if isRoot {
			n = r.Range(2, 6)
		}
		allowDupArg = isRoot
		for j := 0; j < n; j++ {
			o.Fields = append(o.Fields, genOutField(sc))
		}
		allowDupArg = false
		if len(o.Fields) > 2 && r.Chance(1, 6) {
			o.ExtFrom = r.Range(1, len(o.Fields)-1)
		}
	}
	for _, n := range narrowLater {
		if pts := s.PossibleTypes(n.iface); len(pts) > 0 {
			if f := n.obj.field(n.field); f != nil {
				f.Type.setBase(Pick(r, pts).Name)
			}
		}
	}
	// make sure the query root reaches composite types (otherwise documents are flat)
	for k := 0; k < 2; k++ {
		sc := map[string]bool{}
		for _, f := range q.Fields {
			sc[f.Name] = true
		}
		f := &GField{Name: nm.freshFrom(fieldNamePool, sc)}
		var base string
		switch k {
		case 0:
			base = Pick(r, ifaces).Name
			for _, it := range ifaces {
				if it.Lonely && r.Chance(2, 3) {
					base = it.Name
				}
			}
		default:
			if len(unions) > 0 {
				base = Pick(r, unions).Name
			} else {
				base = Pick(r, objs).Name
			}
		}
		f.Type = wrap(r, base)
		q.Fields = append(q.Fields, f)
	}
	for _, u := range unions {
		sc := map[string]bool{}
		for j, m := 0, r.Range(1, 4); j < m; j++ {
			o := Pick(r, objs)
			if !sc[o.Name] {
				sc[o.Name] = true
				u.Members = append(u.Members, o.Name)
			}
		}
	}
	// now and then a schema extends types of the prelude itself
	if r.Chance(1, 6) {
		sc := map[string]bool{"name": true, "kind": true, "description": true}
		switch r.Intn(4) {
		case 0:
			s.Extra = append(s.Extra, "extend type __Type {\n  "+nm.freshFrom(fieldNamePool, sc)+": String\n}\n")
		case 1:
			s.Extra = append(s.Extra, "extend enum __TypeKind {\n  OPAQUE\n}\n")
		case 2:
			s.Extra = append(s.Extra, "extend type __Field {\n  "+nm.freshFrom(fieldNamePool, sc)+": Int\n}\n")
		case 3:
			s.Extra = append(s.Extra, "extend type __Schema {\n  "+nm.freshFrom(fieldNamePool, sc)+": [String!]\n}\n")
		}
	}
	// type-system directive uses (valid ones)
	for _, d := range s.Dirs {
		use := " @" + d.Name + renderDirArgs(r, s, d)
		for _, l := range d.Locs {
			switch l {
			case "OBJECT":
				o := Pick(r, objs)
				if o.Dirs == "" || d.Repeatable {
					o.Dirs += use
				}
			case "FIELD_DEFINITION":
				o := Pick(r, objs)
				f := Pick(r, o.Fields)
				if !strings.Contains(f.Dirs, "@"+d.Name) || d.Repeatable {
					f.Dirs += use
				}
			case "SCHEMA":
				if s.SchemaBlock {
					s.SchemaDirs += use
				}
			case "INTERFACE":
				Pick(r, ifaces).Dirs = use
			case "INPUT_OBJECT":
				Pick(r, inputs).Dirs += use
			case "ARGUMENT_DEFINITION":
				o := Pick(r, objs)
				if f := Pick(r, o.Fields); len(f.Args) > 0 {
					if a := Pick(r, f.Args); !strings.Contains(a.Dirs, "@"+d.Name) || d.Repeatable {
						a.Dirs += use
					}
				}
			case "INPUT_FIELD_DEFINITION":
				in := Pick(r, inputs)
				if f := Pick(r, in.Fields); !strings.Contains(f.Dirs, "@"+d.Name) || d.Repeatable {
					f.Dirs += use
				}
			case "ENUM", "SCALAR", "UNION":
				if c := s.byKind(l); len(c) > 0 {
					if t := Pick(r, c); !strings.Contains(t.Dirs, "@"+d.Name) || d.Repeatable {
						t.Dirs += use
					}
				}
			case "ENUM_VALUE":
				if c := s.byKind("ENUM"); len(c) > 0 {
					e := Pick(r, c)
					if v := Pick(r, e.Values); !strings.Contains(e.ValueDirs[v], "@"+d.Name) || d.Repeatable {
						if e.ValueDirs == nil {
							e.ValueDirs = map[string]string{}
						}
						e.ValueDirs[v] += use
					}
				}
			}
		}
	}
	return s
}

func renderDirArgs(r *Rng, s *GSchema, d *GDir) string {
	var parts []string
	for _, a := range d.Args {
		if (a.Type.NonNull && a.Default == "") || r.Chance(1, 2) {
			parts = append(parts, a.Name+": "+GenLiteral(r, s, a.Type, 2, false))
		}
	}
	if len(parts) == 0 {
		return ""
	}
	return "(" + strings.Join(parts, ", ") + ")"
}

func stripNonNull(t *TRef) {
	for ; t != nil; t = t.Elem {
		t.NonNull = false
	}
}

func sameSignature(a, b *GField) bool {
	if a.Type.String() != b.Type.String() || len(a.Args) != len(b.Args) {
		return false
	}
	for i := range a.Args {
		if a.Args[i].Name != b.Args[i].Name || a.Args[i].Type.String() != b.Args[i].Type.String() {
			return false
		}
	}
	return true
}

func genArg(r *Rng, s *GSchema, nm *namer, sc map[string]bool) *GArg {
	a := &GArg{Name: nm.freshFrom(argNamePool, sc)}
	var base string
	switch r.Weighted([]int{5, 2, 3}) {
	case 0:
		base = Pick(r, builtinScalars)
	case 1:
		base = Pick(r, s.byKind("ENUM", "SCALAR")).Name
	case 2:
		base = Pick(r, s.byKind("INPUT")).Name
	}
	a.Type = wrap(r, base)
	if r.Chance(2, 5) {
		a.Default = GenLiteral(r, s, a.Type, 2, false)
		if r.Chance(1, 12) {
			// the loader does not check a default against its type: such a schema loads
			a.Default = Pick(r, []string{`"one"`, "1.5", "true", "[1]", "{k: 1}", "RED"})
		}
	}
	return a
}

// GenLiteral renders a literal conforming to t (by the generator's model).
// allowNull permits `null` for nullable positions.
func GenLiteral(r *Rng, s *GSchema, t *TRef, depth int, allowNull bool) string {
	if !t.NonNull && allowNull && r.Chance(1, 10) {
		return "null"
	}
	if depth < -12 {
		panic("gen: GenLiteral does not terminate on " + t.String())
	}
	if t.Elem != nil {
		if r.Chance(1, 6) && t.Elem.Elem == nil {
			return GenLiteral(r, s, &TRef{Name: t.Elem.Name, NonNull: true}, depth, false) // single value coerced to a list
		}
		n := r.Intn(3)
		parts := make([]string, 0, n)
		for i := 0; i < n; i++ {
			parts = append(parts, GenLiteral(r, s, t.Elem, depth, allowNull))
		}
		return "[" + strings.Join(parts, ", ") + "]"
	}
	switch t.Name {
	case "Int":
		return Pick(r, []string{"0", "1", "7", "-3", "42", "2147483647"})
	case "Float":
		return Pick(r, []string{"1.5", "0.0", "3", "-2.25", "1e3"})
	case "String":
		return Pick(r, []string{`""`, `"a"`, `"hello world"`, `"q\"uote"`, `"""block"""`, `"é"`, `"naïve café ☕ — ok"`, `"tab\there"`, `"uni\u00e9code"`, "\"\"\"\n  two\n  lines\n\"\"\""})
	case "Boolean":
		return Pick(r, []string{"true", "false"})
	case "ID":
		return Pick(r, []string{`"id1"`, `"x"`, "5", "0"})
	}
	def := s.idx[t.Name]
	if def == nil {
		return `"?"`
	}
	switch def.Kind {
	case "ENUM":
		return Pick(r, def.Values)
	case "SCALAR":
		return Pick(r, []string{`"custom"`, "3", "1.5", "true", "{k: \"v\"}", "[1, 2]", "ANY"})
	case "INPUT":
		if def.OneOf {
			if len(def.Fields) == 0 {
				return "{}"
			}
			f := Pick(r, def.Fields)
			nt := f.Type.clone()
			nt.NonNull = true
			if depth <= 0 && s.idx[nt.Base()] != nil && s.idx[nt.Base()].Kind == "INPUT" {
				// pick a non-recursive field if there is one
				for _, g := range def.Fields {
					if b := s.idx[g.Type.Base()]; b == nil || b.Kind != "INPUT" {
						f = g
						nt = g.Type.clone()
						nt.NonNull = true
					}
				}
			}
			return "{" + f.Name + ": " + GenLiteral(r, s, nt, depth-1, false) + "}"
		}
		var parts []string
		for _, f := range def.Fields {
			req := f.Type.NonNull && f.Default == ""
			if !req && (depth <= 0 || r.Chance(1, 2)) {
				continue
			}
			parts = append(parts, f.Name+": "+GenLiteral(r, s, f.Type, depth-1, allowNull))
		}
		return "{" + strings.Join(parts, ", ") + "}"
	}
	return `"?"`
}

// ---------- rendering ----------

func renderArgs(args []*GArg) string {
	if len(args) == 0 {
		return ""
	}
	parts := make([]string, 0, len(args))
	for _, a := range args {
		p := a.Name + ": " + a.Type.String()
		if a.Default != "" {
			p += " = " + a.Default
		}
		p += a.Dirs
		parts = append(parts, p)
	}
	return "(" + strings.Join(parts, ", ") + ")"
}

func renderFields(b *strings.Builder, fs []*GField, input bool) {
	for _, f := range fs {
		b.WriteString(renderDesc(f.Desc, "  "))
		if f.Comment != "" {
			b.WriteString("  # " + f.Comment + "\n")
		}
		b.WriteString("  " + f.Name)
		if !input {
			if f.ArgComments && len(f.Args) > 0 {
				b.WriteString("(\n")
				for _, a := range f.Args {
					b.WriteString("    #  about " + a.Name + "\n")
					p := "    " + a.Name + ": " + a.Type.String()
					if a.Default != "" {
						p += " = " + a.Default
					}
					b.WriteString(p + a.Dirs + "\n")
				}
				b.WriteString("  )")
			} else {
				b.WriteString(renderArgs(f.Args))
			}
		}
		b.WriteString(": " + f.Type.String())
		if input && f.Default != "" {
			b.WriteString(" = " + f.Default)
		}
		b.WriteString(f.Dirs + "\n")
	}
}

func (t *GType) render(b *strings.Builder) {
	if len(t.Name)%5 == 0 {
		b.WriteString("# about " + t.Name + "\n")
	}
	b.WriteString(renderDesc(t.Desc, ""))
	switch t.Kind {
	case "SCALAR":
		b.WriteString("scalar " + t.Name + t.Dirs + "\n")
	case "ENUM":
		b.WriteString("enum " + t.Name + t.Dirs + " {\n")
		for _, v := range t.Values {
			b.WriteString("  " + v + t.ValueDirs[v] + "\n")
		}
		b.WriteString("}\n")
	case "UNION":
		b.WriteString("union " + t.Name + t.Dirs)
		if len(t.Members) > 0 {
			b.WriteString(" = " + strings.Join(t.Members, " | "))
		}
		b.WriteString("\n")
	case "INPUT":
		b.WriteString("input " + t.Name)
		if t.OneOf {
			b.WriteString(" @oneOf")
		}
		b.WriteString(t.Dirs + " {\n")
		renderFields(b, t.Fields, true)
		b.WriteString("}\n")
	case "OBJECT", "INTERFACE":
		kw := "type "
		if t.Kind == "INTERFACE" {
			kw = "interface "
		}
		b.WriteString(kw + t.Name)
		if len(t.Interfaces) > 0 {
			b.WriteString(" implements " + strings.Join(t.Interfaces, " & "))
		}
		b.WriteString(t.Dirs + " {\n")
		fs := t.Fields
		if t.ExtFrom > 0 && t.ExtFrom < len(fs) {
			fs = fs[:t.ExtFrom]
		}
		renderFields(b, fs, false)
		b.WriteString("}\n")
	}
}

func (t *GType) renderExt(b *strings.Builder) {
	if t.ExtFrom > 0 && t.ExtFrom < len(t.Fields) && (t.Kind == "OBJECT" || t.Kind == "INTERFACE") {
		kw := "extend type "
		if t.Kind == "INTERFACE" {
			kw = "extend interface "
		}
		b.WriteString(kw + t.Name + " {\n")
		renderFields(b, t.Fields[t.ExtFrom:], false)
		b.WriteString("}\n")
	}
}

// Render produces the SDL text, definitions in a seeded order, one field per
// line (so that the line-based text shrinker works well).
func (s *GSchema) Render(r *Rng) string {
	text, _ := s.RenderMarked(r, false)
	return text
}

// RenderDirsFirst renders with all directive definitions at the beginning of
// the text and returns the offset where they end (0 if there is none): cut
// there, the first source is a prelude of directives of the server's own, the
// way code generators hand them in as a BuiltIn source.
func (s *GSchema) RenderDirsFirst(r *Rng) (string, int) {
	s.dirsFirst = true
	text, _ := s.RenderMarked(r, false)
	s.dirsFirst = false
	return text, s.dirCut
}

// RenderMarked is Render; with front it additionally tries to put a definition
// that InjectSchemaFaults changed first, and it returns the offsets at which
// the other changed definitions start - cut there, every resulting source file
// begins with a faulty definition (several candidates for "the first error",
// now across files).
func (s *GSchema) RenderMarked(r *Rng, front bool) (string, []int) {
	var chunks []string
	var faulty []bool
	for _, t := range s.Types {
		var b strings.Builder
		t.render(&b)
		chunks = append(chunks, b.String())
		faulty = append(faulty, s.FaultyTypes[t.Name])
		if t.Twice {
			chunks = append(chunks, b.String())
			faulty = append(faulty, false)
		}
		var e strings.Builder
		t.renderExt(&e)
		if e.Len() > 0 {
			chunks = append(chunks, e.String())
			faulty = append(faulty, false)
		}
	}
	for _, d := range s.Dirs {
		x := "directive @" + d.Name + renderArgs(d.Args)
		if d.Repeatable {
			x += " repeatable"
		}
		x += " on " + strings.Join(d.Locs, " | ") + "\n"
		chunks = append(chunks, x)
		if d.Twice {
			chunks = append(chunks, x)
		}
	}
	if s.SchemaBlock {
		x := "schema" + s.SchemaDirs + " {\n  query: " + s.Query + "\n"
		if s.Mutation != "" {
			x += "  mutation: " + s.Mutation + "\n"
		}
		if s.Subscription != "" {
			x += "  subscription: " + s.Subscription + "\n"
		}
		if s.BadRoot != "" {
			x += "  " + s.BadRoot + "\n"
		}
		x += "}\n"
		chunks = append(chunks, x)
	}
	if s.ExtendSchemaMut && !s.SchemaBlock {
		chunks = append(chunks, "extend schema {\n  mutation: "+s.Mutation+"\n}\n")
	}
	chunks = append(chunks, s.Extra...)
	for len(faulty) < len(chunks) {
		faulty = append(faulty, false)
	}
	for i := len(chunks) - 1; i > 0; i-- {
		j := r.Intn(i + 1)
		chunks[i], chunks[j] = chunks[j], chunks[i]
		faulty[i], faulty[j] = faulty[j], faulty[i]
	}
	if front {
		for i, f := range faulty {
			if f {
				chunks[0], chunks[i] = chunks[i], chunks[0]
				faulty[0], faulty[i] = faulty[i], faulty[0]
				break
			}
		}
	}
	s.dirCut = 0
	if s.dirsFirst {
		var d, rest []string
		var df, rf []bool
		for i, c := range chunks {
			if strings.HasPrefix(c, "directive @") {
				d, df = append(d, c), append(df, faulty[i])
			} else {
				rest, rf = append(rest, c), append(rf, faulty[i])
			}
		}
		if len(d) > 0 && len(rest) > 0 {
			chunks, faulty = append(d, rest...), append(df, rf...)
			for _, c := range d {
				s.dirCut += len(c) + 1
			}
		}
	}
	var cuts []int
	off := 0
	for i, c := range chunks {
		if i > 0 && faulty[i] {
			cuts = append(cuts, off)
		}
		off += len(c) + 1 // joined with "\n"
	}
	return strings.Join(chunks, "\n"), cuts
}

// ---------- schema faults (for LoadSchema error determinism) ----------

// InjectSchemaFaults applies n violations of the loader's rules, each in a
// different definition where possible: the loader reports only the first error
// it meets, so whether that choice is stable shows only with several candidates.
func InjectSchemaFaults(r *Rng, s *GSchema, n int) {
	usedT := map[string]bool{}
	defer func() {
		if s.FaultyTypes == nil {
			s.FaultyTypes = map[string]bool{}
		}
		for k := range usedT {
			s.FaultyTypes[k] = true
		}
	}()
	pickT := func(kinds ...string) *GType {
		c := s.byKind(kinds...)
		for try := 0; try < 8 && len(c) > 0; try++ {
			t := Pick(r, c)
			if !usedT[t.Name] {
				usedT[t.Name] = true
				return t
			}
		}
		if len(c) > 0 {
			return Pick(r, c)
		}
		return nil
	}
	for i := 0; i < n; i++ {
		k := r.Intn(22)
		if i == 0 && len(s.narrowedFields()) > 0 && r.Chance(1, 3) {
			k = 18 // the covariance relation a narrowed field relies on is what sibling schemas differ in
		}
		switch k {
		case 20, 21:
			// an invalid extension of a type the prelude defines
			s.Extra = append(s.Extra, Pick(r, []string{
				"extend type __Type {\n  owner: Teamx\n}\n",
				"extend type __Field {\n  extra(arg: Nopey): String\n}\n",
				"extend type __Schema {\n  name: String\n  name: String\n}\n",
			}))
			s.Faults = append(s.Faults, "bad-prelude-extension")
		case 18, 19:
			BreakCovariance(r, s)
		case 0:
			if t := pickT("OBJECT", "INTERFACE"); t != nil {
				f := Pick(r, t.Fields)
				f.Type = f.Type.clone()
				f.Type.setBase(Misspell(r, f.Type.Base()) + "x")
				s.Faults = append(s.Faults, "undef-field-type")
			}
		case 1:
			if t := pickT("OBJECT"); t != nil {
				f := Pick(r, t.Fields)
				f.Args = append(append([]*GArg{}, f.Args...), &GArg{Name: "zz", Type: &TRef{Name: "Nopex"}})
				s.Faults = append(s.Faults, "undef-arg-type")
			}
		case 2:
			for _, t := range s.byKind("OBJECT") {
				if len(t.Interfaces) > 0 && !usedT[t.Name] && len(t.Fields) > 1 {
					it := s.idx[t.Interfaces[0]]
					if it != nil && len(it.Fields) > 0 {
						drop := it.Fields[0].Name
						var nf []*GField
						for _, f := range t.Fields {
							if f.Name != drop {
								nf = append(nf, f)
							}
						}
						t.Fields = nf
						t.ExtFrom = 0
						usedT[t.Name] = true
						s.Faults = append(s.Faults, "iface-missing-field")
						break
					}
				}
			}
		case 3:
			for _, t := range s.byKind("OBJECT") {
				if len(t.Interfaces) > 0 && !usedT[t.Name] {
					it := s.idx[t.Interfaces[len(t.Interfaces)-1]]
					if it != nil && len(it.Fields) > 0 {
						if f := t.field(it.Fields[len(it.Fields)-1].Name); f != nil {
							nf := *f
							nf.Type = &TRef{Name: "Boolean", Elem: nil}
							if f.Type.String() == "Boolean" {
								nf.Type = &TRef{Name: "Int"}
							}
							for i2, g := range t.Fields {
								if g == f {
									t.Fields[i2] = &nf
								}
							}
							usedT[t.Name] = true
							s.Faults = append(s.Faults, "iface-wrong-type")
							break
						}
					}
				}
			}
		case 4:
			if t := pickT("UNION"); t != nil {
				t.Members = append(append([]string{}, t.Members...), Pick(r, s.byKind("ENUM", "INTERFACE", "INPUT")).Name)
				s.Faults = append(s.Faults, "union-nonobject-member")
			}
		case 5:
			if t := pickT("OBJECT", "INTERFACE", "INPUT"); t != nil {
				f := *Pick(r, t.Fields)
				t.Fields = append(append([]*GField{}, t.Fields...), &f)
				s.Faults = append(s.Faults, "dup-field")
				if len(t.Fields) > 2 && r.Chance(1, 2) {
					// two DIFFERENT names repeated in one type: which one is reported
					// first must not depend on anything but the text
					g := *Pick(r, t.Fields[:len(t.Fields)-1])
					if g.Name != f.Name {
						if r.Chance(1, 2) {
							t.Fields = append(t.Fields, &g)
						} else {
							t.Fields = append(t.Fields[:len(t.Fields)-1:len(t.Fields)-1], &g, &f)
						}
						s.Faults = append(s.Faults, "dup-two-fields")
					}
				}
			}
		case 6:
			if t := pickT("OBJECT", "INPUT"); t != nil {
				f := *Pick(r, t.Fields)
				f.Name = "__" + f.Name
				t.Fields = append(append([]*GField{}, t.Fields...), &f)
				s.Faults = append(s.Faults, "reserved-name")
			}
		case 7:
			if t := pickT("OBJECT", "ENUM", "SCALAR", "UNION", "INTERFACE", "INPUT"); t != nil {
				t.Dirs += " @nodir"
				s.Faults = append(s.Faults, "undef-directive")
			}
		case 8:
			if t := pickT("OBJECT", "INTERFACE"); t != nil {
				f := *Pick(r, t.Fields)
				f.Name = f.Name + "z"
				f.Dirs = " @include(if: true)"
				t.Fields = append(append([]*GField{}, t.Fields...), &f)
				s.Faults = append(s.Faults, "dir-wrong-location")
			}
		case 9:
			if t := pickT("INPUT"); t != nil {
				t.Fields = append(append([]*GField{}, t.Fields...), &GField{Name: "outp", Type: &TRef{Name: Pick(r, s.byKind("OBJECT")).Name}})
				s.Faults = append(s.Faults, "input-field-output-type")
			}
		case 10:
			if t := pickT("OBJECT"); t != nil {
				t.Fields = append(append([]*GField{}, t.Fields...), &GField{Name: "inp", Type: &TRef{Name: Pick(r, s.byKind("INPUT")).Name}})
				s.Faults = append(s.Faults, "output-field-input-type")
			}
		case 11:
			if t := pickT("OBJECT", "INTERFACE"); t != nil {
				f := *Pick(r, t.Fields)
				f.Name = f.Name + "y"
				f.Args = []*GArg{{Name: "obj", Type: &TRef{Name: Pick(r, s.byKind("OBJECT", "UNION")).Name}}}
				t.Fields = append(append([]*GField{}, t.Fields...), &f)
				s.Faults = append(s.Faults, "arg-not-input")
			}
		case 12:
			if t := pickT("OBJECT", "ENUM", "SCALAR", "INPUT"); t != nil {
				t.Twice = true
				s.Faults = append(s.Faults, "dup-type")
			}
		case 13:
			if s.SchemaBlock {
				s.BadRoot = "subscription: Missingx"
				if s.Subscription != "" {
					s.BadRoot = "mutation: Missingy"
					if s.Mutation != "" {
						s.BadRoot = ""
					}
				}
				if s.BadRoot != "" {
					s.Faults = append(s.Faults, "root-missing")
				}
			}
		case 14:
			for _, t := range s.byKind("OBJECT") {
				if len(t.Interfaces) > 1 && !usedT[t.Name] {
					// drop an interface that another listed interface implements
					for _, in := range t.Interfaces {
						if it := s.idx[in]; it != nil && len(it.Interfaces) > 0 {
							par := it.Interfaces[0]
							var ni []string
							for _, x := range t.Interfaces {
								if x != par {
									ni = append(ni, x)
								}
							}
							if len(ni) < len(t.Interfaces) {
								t.Interfaces = ni
								usedT[t.Name] = true
								s.Faults = append(s.Faults, "missing-transitive-iface")
							}
							break
						}
					}
					break
				}
			}
		case 15:
			if t := pickT("OBJECT"); t != nil {
				if r.Chance(1, 2) {
					t.Interfaces = append(append([]string{}, t.Interfaces...), "Nodx")
					s.Faults = append(s.Faults, "undef-interface")
				} else {
					t.Interfaces = append(append([]string{}, t.Interfaces...), Pick(r, s.byKind("OBJECT", "ENUM")).Name)
					s.Faults = append(s.Faults, "implements-non-interface")
				}
			}
		case 16:
			if len(s.Dirs) > 0 {
				d := Pick(r, s.Dirs)
				if r.Chance(1, 2) {
					d.Twice = true
					s.Faults = append(s.Faults, "dup-directive")
				} else {
					d.Args = append(append([]*GArg{}, d.Args...), &GArg{Name: "self", Type: &TRef{Name: "Int"}, Dirs: " @" + d.Name})
					hasLoc := false
					for _, l := range d.Locs {
						if l == "ARGUMENT_DEFINITION" {
							hasLoc = true
						}
					}
					if !hasLoc {
						d.Locs = append(append([]string{}, d.Locs...), "ARGUMENT_DEFINITION")
					}
					s.Faults = append(s.Faults, "directive-self-reference")
				}
			}
		case 17:
			for _, t := range s.byKind("OBJECT") {
				if len(t.Interfaces) > 0 && !usedT[t.Name] {
					it := s.idx[t.Interfaces[0]]
					if it != nil && len(it.Fields) > 0 {
						if f := t.field(it.Fields[0].Name); f != nil {
							nf := *f
							nf.Args = append(append([]*GArg{}, f.Args...), &GArg{Name: "must", Type: &TRef{Name: "Int", NonNull: true}})
							for i2, g := range t.Fields {
								if g == f {
									t.Fields[i2] = &nf
								}
							}
							usedT[t.Name] = true
							s.Faults = append(s.Faults, "extra-required-arg")
							break
						}
					}
				}
			}
		}
	}
}

// narrowedFields lists (object, field, interface, interface field) where the
// object's field returns a narrower named type than the interface's field.
func (s *GSchema) narrowedFields() (out [][2]string) {
	for _, o := range s.byKind("OBJECT") {
		for _, in := range o.Interfaces {
			it := s.idx[in]
			if it == nil {
				continue
			}
			for _, f := range it.Fields {
				if g := o.field(f.Name); g != nil && g.Type.Base() != f.Type.Base() {
					out = append(out, [2]string{g.Type.Base(), f.Type.Base()})
				}
			}
		}
	}
	return
}

// BreakCovariance removes the implements relation a narrowed field relies on:
// the same type names as before, but the pair is no longer covariant.
func BreakCovariance(r *Rng, s *GSchema) bool {
	nf := s.narrowedFields()
	if len(nf) == 0 {
		return false
	}
	p := Pick(r, nf)
	o := s.idx[p[0]]
	if o == nil {
		return false
	}
	var ni []string
	for _, x := range o.Interfaces {
		if x != p[1] {
			ni = append(ni, x)
		}
	}
	if len(ni) == len(o.Interfaces) {
		return false
	}
	o.Interfaces = ni
	s.Faults = append(s.Faults, "break-covariance")
	return true
}

// MutateSchemaValid applies n changes that keep the schema loadable (by the
// generator's model) while keeping every name: sibling schemas that differ
// only in relations, members, values and fields. State that survives between
// calls and is keyed by names rather than by schema object shows up as a
// result that depends on which sibling was used before.
func MutateSchemaValid(r *Rng, s *GSchema, n int) {
	nm := &namer{r: r, used: map[string]bool{}}
	objs := s.byKind("OBJECT")
	for i := 0; i < n; i++ {
		switch r.Intn(9) {
		case 0: // enum: add a value
			e := Pick(r, s.byKind("ENUM"))
			sc := map[string]bool{}
			for _, v := range e.Values {
				sc[v] = true
			}
			e.Values = append(append([]string{}, e.Values...), nm.freshFrom(enumValuePool, sc))
		case 1: // enum: drop a value
			e := Pick(r, s.byKind("ENUM"))
			if len(e.Values) > 1 {
				k := r.Intn(len(e.Values))
				e.Values = append(append([]string{}, e.Values[:k]...), e.Values[k+1:]...)
			}
		case 2: // object: add a leaf field
			o := Pick(r, objs)
			sc := map[string]bool{}
			for _, f := range o.Fields {
				sc[f.Name] = true
			}
			o.Fields = append(append([]*GField{}, o.Fields...), &GField{Name: nm.freshFrom(fieldNamePool, sc), Type: wrap(r, Pick(r, builtinScalars))})
		case 3: // object: drop a field no interface requires
			o := Pick(r, objs)
			if len(o.Fields) > 1 {
				k := r.Intn(len(o.Fields))
				need := false
				for _, in := range o.Interfaces {
					if it := s.idx[in]; it != nil && it.field(o.Fields[k].Name) != nil {
						need = true
					}
				}
				if !need {
					o.Fields = append(append([]*GField{}, o.Fields[:k]...), o.Fields[k+1:]...)
					o.ExtFrom = 0
				}
			}
		case 4: // union: add / drop a member
			us := s.byKind("UNION")
			if len(us) == 0 {
				continue
			}
			u := Pick(r, us)
			if len(u.Members) > 1 && r.Chance(1, 2) {
				k := r.Intn(len(u.Members))
				u.Members = append(append([]string{}, u.Members[:k]...), u.Members[k+1:]...)
			} else {
				o := Pick(r, objs)
				has := o.Name == s.Query || o.Name == s.Mutation || o.Name == s.Subscription
				for _, m := range u.Members {
					if m == o.Name {
						has = true
					}
				}
				if !has {
					u.Members = append(append([]string{}, u.Members...), o.Name)
				}
			}
		case 5: // object stops implementing an interface (fields stay), unless a narrowed field relies on it
			o := Pick(r, objs)
			if len(o.Interfaces) > 0 {
				drop := o.Interfaces[len(o.Interfaces)-1]
				blocked := false
				for _, x := range o.Interfaces {
					if it := s.idx[x]; it != nil && it.implements(drop) {
						blocked = true
					}
				}
				for _, p := range s.narrowedFields() {
					if p[0] == o.Name && p[1] == drop {
						blocked = true
					}
				}
				if !blocked {
					o.Interfaces = append([]string{}, o.Interfaces[:len(o.Interfaces)-1]...)
				}
			}
		case 6: // input: add an optional field
			in := Pick(r, s.byKind("INPUT"))
			if !in.OneOf {
				sc := map[string]bool{}
				for _, f := range in.Fields {
					sc[f.Name] = true
				}
				t := wrap(r, Pick(r, builtinScalars))
				t.NonNull = false
				in.Fields = append(append([]*GField{}, in.Fields...), &GField{Name: nm.freshFrom(fieldNamePool, sc), Type: t})
			}
		case 7: // a field gains an optional argument / an argument default changes
			o := Pick(r, objs)
			f := Pick(r, o.Fields)
			inIface := false
			for _, in := range o.Interfaces {
				if it := s.idx[in]; it != nil && it.field(f.Name) != nil {
					inIface = true
				}
			}
			if len(f.Args) > 0 && r.Chance(1, 2) {
				nf := *f
				nf.Args = append([]*GArg{}, f.Args...)
				a := *Pick(r, nf.Args)
				a.Default = GenLiteral(r, s, a.Type, 2, false)
				for k := range nf.Args {
					if nf.Args[k].Name == a.Name {
						nf.Args[k] = &a
					}
				}
				replaceField(o, f, &nf)
			} else if !inIface || true {
				nf := *f
				sc := map[string]bool{}
				for _, a := range f.Args {
					sc[a.Name] = true
				}
				a := genArg(r, s, nm, sc)
				if a.Type.NonNull && a.Default == "" {
					a.Type.NonNull = false
				}
				nf.Args = append(append([]*GArg{}, f.Args...), a)
				replaceField(o, f, &nf)
			}
		case 8: // a leaf field changes its type wrapper
			o := Pick(r, objs)
			f := Pick(r, o.Fields)
			req := false
			for _, in := range o.Interfaces {
				if it := s.idx[in]; it != nil && it.field(f.Name) != nil {
					req = true
				}
			}
			if !req {
				nf := *f
				nf.Type = wrap(r, f.Type.Base())
				replaceField(o, f, &nf)
			}
		}
	}
}

func replaceField(o *GType, old, nw *GField) {
	fs := append([]*GField{}, o.Fields...)
	for i, g := range fs {
		if g == old {
			fs[i] = nw
		}
	}
	o.Fields = fs
}

// DuplicateDirective makes the SDL declare one of its directives twice.
func DuplicateDirective(r *Rng, s *GSchema) bool {
	if len(s.Dirs) == 0 {
		return false
	}
	Pick(r, s.Dirs).Twice = true
	s.Faults = append(s.Faults, "dup-directive")
	return true
}

// Misspell returns a near-duplicate of name (edit distance 1-2).
func Misspell(r *Rng, name string) string {
	if len(name) == 0 {
		return "x"
	}
	b := []byte(name)
	switch r.Intn(6) {
	case 0: // drop the last character: "Pet" -> "Pe" ties Pet/Pen/Pea...
		if len(b) > 1 {
			return string(b[:len(b)-1])
		}
	case 1: // swap two adjacent characters
		if len(b) > 1 {
			i := r.Intn(len(b) - 1)
			b[i], b[i+1] = b[i+1], b[i]
			if string(b) != name {
				return string(b)
			}
		}
	case 2: // replace one character
		i := r.Intn(len(b))
		c := byte('a' + r.Intn(26))
		if b[0] >= 'A' && b[0] <= 'Z' && i == 0 {
			c = byte('A' + r.Intn(26))
		}
		if c != b[i] {
			b[i] = c
			return string(b)
		}
	case 3:
		return name + string(byte('a'+r.Intn(26)))
	case 4: // case change of the first letter
		if b[0] >= 'a' && b[0] <= 'z' {
			b[0] -= 32
			return string(b)
		}
		if b[0] >= 'A' && b[0] <= 'Z' {
			b[0] += 32
			return string(b)
		}
	}
	if len(b) > 2 {
		return string(b[:len(b)-1])
	}
	return name + "q"
}
