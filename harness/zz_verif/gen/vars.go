package gen

import (
	"encoding/json"
	"strconv"

	"github.com/vektah/gqlparser/v2/ast"
)

// GenVars builds a type-directed variables map for the operations of a parsed
// (not validated) document, using aux only to look up enum values and input
// object fields. About one value in six is deliberately defective.
func GenVars(r *Rng, aux *ast.Schema, doc *ast.QueryDocument) map[string]interface{} {
	out := map[string]interface{}{}
	for _, op := range doc.Operations {
		for _, v := range op.VariableDefinitions {
			if _, done := out[v.Variable]; done {
				continue
			}
			if r.Chance(1, 8) {
				continue // missing
			}
			out[v.Variable] = genValue(r, aux, v.Type, 0)
		}
	}
	if r.Chance(1, 10) {
		out["extraneous"] = "x"
	}
	return out
}

func genValue(r *Rng, aux *ast.Schema, t *ast.Type, depth int) interface{} {
	if t == nil {
		return nil
	}
	if !t.NonNull && r.Chance(1, 8) {
		return nil
	}
	if t.NonNull && r.Chance(1, 30) {
		return nil // defect
	}
	if t.Elem != nil {
		if r.Chance(1, 8) {
			return genValue(r, aux, t.Elem, depth+1) // single value coerced to a list
		}
		n := r.Intn(3)
		l := make([]interface{}, 0, n)
		for i := 0; i < n; i++ {
			l = append(l, genValue(r, aux, t.Elem, depth+1))
		}
		return l
	}
	if r.Chance(1, 12) {
		// wrong kind on purpose
		return Pick(r, []interface{}{true, "str", int64(7), 1.5, map[string]interface{}{"a": 1}, []interface{}{1}})
	}
	switch t.NamedType {
	case "Int":
		switch r.Intn(5) {
		case 0:
			return int(r.Intn(100))
		case 1:
			return int64(r.Intn(100000))
		case 2:
			return json.Number(strconv.Itoa(r.Intn(1000)))
		case 3:
			return strconv.Itoa(r.Intn(50))
		}
		return float64(r.Intn(10))
	case "Float":
		switch r.Intn(4) {
		case 0:
			return 1.5 * float64(r.Intn(10))
		case 1:
			return json.Number("2.5")
		case 2:
			return int64(r.Intn(9))
		}
		return "3.25"
	case "String":
		return Pick(r, []string{"", "a", "hello", "Pet", "é"})
	case "Boolean":
		return r.Chance(1, 2)
	case "ID":
		if r.Chance(1, 2) {
			return int64(r.Intn(1000))
		}
		return "id" + strconv.Itoa(r.Intn(10))
	}
	def := aux.Types[t.NamedType]
	if def == nil {
		return "unknown-type"
	}
	switch def.Kind {
	case ast.Enum:
		if len(def.EnumValues) > 0 && !r.Chance(1, 10) {
			return Pick(r, def.EnumValues).Name
		}
		return "NOT_A_VALUE"
	case ast.InputObject:
		m := map[string]interface{}{}
		if depth > 3 {
			return m
		}
		for _, f := range def.Fields {
			if !f.Type.NonNull && r.Chance(1, 2) {
				continue
			}
			if f.Type.NonNull && f.DefaultValue != nil && r.Chance(1, 2) {
				continue // legal: the field has a default
			}
			if f.Type.NonNull && r.Chance(1, 15) {
				continue // defect: missing required
			}
			m[f.Name] = genValue(r, aux, f.Type, depth+1)
		}
		if r.Chance(1, 12) {
			m["bogus"] = 1
		}
		return m
	case ast.Scalar:
		return Pick(r, []interface{}{"custom", int64(3), map[string]interface{}{"k": "v"}, true})
	}
	return "x"
}
