// Package gen holds the workload side of the simulation harness: the vendored
// corpus, the typed generators, result renderers and the schema fingerprint.
// It is copied into the scratch copy of the library (as zz_verif/gen) and is
// never instrumented.
package gen

import (
	_ "embed"
	"encoding/json"
)

//go:embed corpus.json
var corpusJSON []byte

type CorpusCase struct {
	Src    string `json:"src"`
	Schema int    `json:"schema"`
	Query  string `json:"query"`
}

type CorpusFile struct {
	Src  string `json:"src"`
	Text string `json:"text"`
}

type CorpusData struct {
	Schemas     []string     `json:"schemas"`
	Cases       []CorpusCase `json:"cases"`
	Files       []CorpusFile `json:"files"`
	SchemaCases []CorpusFile `json:"schema_cases"`
	// derived
	BySchema [][]int `json:"-"` // case indexes per schema
}

var Corpus = func() *CorpusData {
	var c CorpusData
	if err := json.Unmarshal(corpusJSON, &c); err != nil {
		panic(err)
	}
	c.BySchema = make([][]int, len(c.Schemas))
	for i, cs := range c.Cases {
		if cs.Schema >= 0 && cs.Schema < len(c.Schemas) {
			c.BySchema[cs.Schema] = append(c.BySchema[cs.Schema], i)
		}
	}
	return &c
}()
