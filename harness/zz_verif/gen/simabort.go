package gen

import "github.com/vektah/gqlparser/v2/verifsim"

func isSimAbort(r interface{}) bool {
	_, ok := r.(verifsim.Abort)
	return ok
}
