package gen

import (
	"hash/fnv"
	"reflect"
	"sort"
	"strconv"
)

// Fingerprint is a canonical deep rendering of everything reachable from a
// value through exported fields: pointer shape (first-visit ordinals, so
// aliasing and cycles are part of the picture), scalars, map entries in sorted
// key order, and for every slice its length, its capacity and all cap elements.
type Fingerprint struct {
	Hash  uint64
	Lines []string // only when built with keep=true
}

type fpWalker struct {
	seen  map[uintptr]int
	keep  bool
	lines []string
	h     uint64
}

const fnvPrime = 0x100000001b3

func (w *fpWalker) emit(path, val string) {
	for i := 0; i < len(path); i++ {
		w.h = (w.h ^ uint64(path[i])) * fnvPrime
	}
	w.h = (w.h ^ '=') * fnvPrime
	for i := 0; i < len(val); i++ {
		w.h = (w.h ^ uint64(val[i])) * fnvPrime
	}
	w.h = (w.h ^ '\n') * fnvPrime
	if w.keep {
		w.lines = append(w.lines, path+" = "+val)
	}
}

// TakeFingerprint walks v (usually a *ast.Schema). With keep it also retains
// the rendered lines so that two fingerprints can be diffed.
func TakeFingerprint(v interface{}, keep bool) Fingerprint {
	w := &fpWalker{seen: map[uintptr]int{}, keep: keep, h: fnv.New64a().Sum64()}
	w.walk("$", reflect.ValueOf(v))
	return Fingerprint{w.h, w.lines}
}

func (w *fpWalker) walk(path string, v reflect.Value) {
	if !v.IsValid() {
		w.emit(path, "<invalid>")
		return
	}
	switch v.Kind() {
	case reflect.Ptr:
		if v.IsNil() {
			w.emit(path, "nil")
			return
		}
		p := v.Pointer()
		if id, ok := w.seen[p]; ok {
			w.emit(path, "&#"+strconv.Itoa(id))
			return
		}
		id := len(w.seen)
		w.seen[p] = id
		w.emit(path, "&new#"+strconv.Itoa(id))
		w.walk(path, v.Elem())
	case reflect.Interface:
		if v.IsNil() {
			w.emit(path, "nil-iface")
			return
		}
		w.emit(path, "iface:"+v.Elem().Type().String())
		w.walk(path, v.Elem())
	case reflect.Struct:
		t := v.Type()
		for i := 0; i < t.NumField(); i++ {
			f := t.Field(i)
			if f.PkgPath != "" { // unexported
				continue
			}
			w.walk(path+"."+f.Name, v.Field(i))
		}
	case reflect.Slice:
		if v.IsNil() {
			w.emit(path, "nil-slice")
			return
		}
		w.emit(path, "len="+strconv.Itoa(v.Len())+" cap="+strconv.Itoa(v.Cap()))
		full := v.Slice(0, v.Cap())
		for i := 0; i < full.Len(); i++ {
			w.walk(path+"["+strconv.Itoa(i)+"]", full.Index(i))
		}
	case reflect.Array:
		for i := 0; i < v.Len(); i++ {
			w.walk(path+"["+strconv.Itoa(i)+"]", v.Index(i))
		}
	case reflect.Map:
		if v.IsNil() {
			w.emit(path, "nil-map")
			return
		}
		w.emit(path, "maplen="+strconv.Itoa(v.Len()))
		keys := v.MapKeys()
		sort.Slice(keys, func(i, j int) bool { return scalarString(keys[i]) < scalarString(keys[j]) })
		for _, k := range keys {
			w.walk(path+"["+strconv.Quote(scalarString(k))+"]", v.MapIndex(k))
		}
	default:
		w.emit(path, scalarString(v))
	}
}

func scalarString(v reflect.Value) string {
	switch v.Kind() {
	case reflect.String:
		return v.String()
	case reflect.Bool:
		return strconv.FormatBool(v.Bool())
	case reflect.Int, reflect.Int8, reflect.Int16, reflect.Int32, reflect.Int64:
		return strconv.FormatInt(v.Int(), 10)
	case reflect.Uint, reflect.Uint8, reflect.Uint16, reflect.Uint32, reflect.Uint64, reflect.Uintptr:
		return strconv.FormatUint(v.Uint(), 10)
	case reflect.Float32, reflect.Float64:
		return strconv.FormatFloat(v.Float(), 'g', -1, 64)
	case reflect.Func:
		if v.IsNil() {
			return "nil-func"
		}
		return "func"
	case reflect.Chan, reflect.UnsafePointer:
		return "opaque:" + v.Kind().String()
	}
	return "?" + v.Kind().String()
}

// FirstDiff returns the first differing line pair of two kept fingerprints.
func FirstDiff(a, b Fingerprint) (string, string) {
	n := len(a.Lines)
	if len(b.Lines) < n {
		n = len(b.Lines)
	}
	for i := 0; i < n; i++ {
		if a.Lines[i] != b.Lines[i] {
			return a.Lines[i], b.Lines[i]
		}
	}
	if len(a.Lines) > n {
		return a.Lines[n], "<end>"
	}
	if len(b.Lines) > n {
		return "<end>", b.Lines[n]
	}
	return "", ""
}
