package gen

// Rng is a splitmix64 generator; every choice of a run derives from one seed.
type Rng struct{ s uint64 }

func NewRng(seed uint64) *Rng { return &Rng{seed} }

func (r *Rng) U64() uint64 {
	r.s += 0x9e3779b97f4a7c15
	z := r.s
	z = (z ^ (z >> 30)) * 0xbf58476d1ce4e5b9
	z = (z ^ (z >> 27)) * 0x94d049bb133111eb
	return z ^ (z >> 31)
}

func (r *Rng) Intn(n int) int {
	if n <= 0 {
		return 0
	}
	return int(r.U64() % uint64(n))
}

// Range returns a value in [lo, hi].
func (r *Rng) Range(lo, hi int) int { return lo + r.Intn(hi-lo+1) }

func (r *Rng) Chance(num, den int) bool { return r.Intn(den) < num }

func (r *Rng) Fork(tag uint64) *Rng { return NewRng(Mix(r.U64(), tag)) }

func Mix(a, b uint64) uint64 {
	x := a ^ (b+0x632be59bd9b4e019)*0x9e3779b97f4a7c15
	r := Rng{x}
	return r.U64()
}

func Pick[T any](r *Rng, xs []T) T { return xs[r.Intn(len(xs))] }

// Weighted picks an index with probability proportional to w[i].
func (r *Rng) Weighted(w []int) int {
	t := 0
	for _, x := range w {
		t += x
	}
	if t == 0 {
		return 0
	}
	p := r.Intn(t)
	for i, x := range w {
		if p < x {
			return i
		}
		p -= x
	}
	return len(w) - 1
}
