package gen

// Reach probes: plain counters bumped by harness code (single-threaded or, in
// C11, serialised and not shared through library code). They only describe what
// the workload reached; no verdict depends on them.
type probeSet struct {
	argmaps        int
	genSchemas     int
	genFaultySch   int
	genVariants    int
	genLonely      int
	genDocs        int
	genDocsFaulted int
	genFaults      int
	faultKinds     [64]int
}

var probes probeSet

var faultKindNames []string

func Probes() map[string]int {
	m := map[string]int{
		"argument_maps_resolved":             probes.argmaps,
		"gen_schemas":                        probes.genSchemas,
		"gen_schemas_with_injected_faults":   probes.genFaultySch,
		"gen_schemas_with_memberless_iface":  probes.genLonely,
		"gen_schema_valid_variants":          probes.genVariants,
		"gen_documents":                      probes.genDocs,
		"gen_documents_with_injected_faults": probes.genDocsFaulted,
		"gen_faults_injected":                probes.genFaults,
	}
	for i, n := range faultKindNames {
		m["gen_fault:"+n] = probes.faultKinds[i]
	}
	return m
}

// bump increments a probe counter; tasks run one at a time, and the function
// is invisible to the race detector so that harness bookkeeping never shows
// up as a report.
//
//go:norace
func bump(p *int) { *p++ }

//go:norace
func noteFaults(names []string) {
	for _, n := range names {
		idx := -1
		for i, k := range faultKindNames {
			if k == n {
				idx = i
			}
		}
		if idx < 0 && len(faultKindNames) < len(probes.faultKinds) {
			faultKindNames = append(faultKindNames, n)
			idx = len(faultKindNames) - 1
		}
		if idx >= 0 {
			probes.faultKinds[idx]++
		}
		probes.genFaults++
	}
}

// GenPool is what the typed generator hands to a session or run: one valid
// schema (by the generator's model), optionally faulty variants of it, and
// documents over it.
type GenPool struct {
	Schema       string
	FaultySchema []string
	Variants     []string // loadable siblings: same names, other relations/members/fields
	// DirCut > 0: Schema and every variant were rendered with the directive
	// definitions first; they end at these offsets (Schema, then the variants,
	// then the faulty variants)
	DirCuts    []int
	FaultyCuts [][]int // per faulty variant: offsets at which other faulty definitions start (may be empty)
	Docs       []string
}

// GenPoolFor builds a pool from one seed. nFaulty faulty variants of the schema
// (1-3 injected loader-rule violations each, in different definitions), nDocs
// documents of which about faultyDocs in 10 carry 1-3 injected faults.
func GenPoolFor(r *Rng, nFaulty, nVariants, nDocs, faultyDocsIn10 int) *GenPool {
	seed := r.U64()
	s := GenSchema(NewRng(seed))
	dirsFirst := len(s.Dirs) > 0 && r.Chance(1, 4)
	p := &GenPool{}
	render := func(g *GSchema, rr *Rng) string {
		if dirsFirst {
			t, cut := g.RenderDirsFirst(rr)
			p.DirCuts = append(p.DirCuts, cut)
			return t
		}
		return g.Render(rr)
	}
	p.Schema = render(s, NewRng(seed+1))
	bump(&probes.genSchemas)
	for _, t := range s.Types {
		if t.Lonely {
			bump(&probes.genLonely)
			break
		}
	}
	for i := 0; i < nFaulty; i++ {
		f := GenSchema(NewRng(seed)) // same model again, then break it
		if dirsFirst && r.Chance(1, 3) {
			// a directive declared twice: what the loader says about it must not
			// depend on which directive preludes the process has seen
			DuplicateDirective(r, f)
		}
		InjectSchemaFaults(r, f, r.Range(1, 3))
		order := seed + 1
		if r.Chance(1, 2) {
			order = r.U64() // same definitions, other textual order
		}
		if dirsFirst {
			p.FaultySchema = append(p.FaultySchema, render(f, NewRng(order)))
			p.FaultyCuts = append(p.FaultyCuts, nil)
		} else {
			ft, cuts := f.RenderMarked(NewRng(order), r.Chance(1, 2))
			p.FaultySchema = append(p.FaultySchema, ft)
			p.FaultyCuts = append(p.FaultyCuts, cuts)
		}
		bump(&probes.genFaultySch)
		noteFaults(prefixAll("schema:", f.Faults))
	}
	for i := 0; i < nVariants; i++ {
		v := GenSchema(NewRng(seed))
		MutateSchemaValid(r, v, r.Range(1, 4))
		p.Variants = append(p.Variants, render(v, NewRng(seed+1)))
		bump(&probes.genVariants)
	}
	if r.Chance(1, 15) {
		p.Schema = "\ufeff" + p.Schema // a byte order mark is legal at the start of a source
	}
	for i := 0; i < nDocs; i++ {
		nf := 0
		if r.Intn(10) < faultyDocsIn10 {
			nf = r.Range(1, 3)
		}
		d, noted := GenDoc(r, s, nf)
		if r.Chance(1, 20) {
			d = "\ufeff" + d
		}
		p.Docs = append(p.Docs, d)
		bump(&probes.genDocs)
		if len(noted) > 0 {
			bump(&probes.genDocsFaulted)
			noteFaults(noted)
		}
	}
	return p
}

func prefixAll(p string, xs []string) []string {
	out := make([]string, len(xs))
	for i, x := range xs {
		out[i] = p + x
	}
	return out
}
