package gen

// Reach probes: plain counters bumped by harness code (single-threaded or, in
// C11, serialised and not shared through library code). They only describe what
// the workload reached; no verdict depends on them.
type probeSet struct {
	argmaps int
}

var probes probeSet

func Probes() map[string]int {
	return map[string]int{"argument_maps_resolved": probes.argmaps}
}

// bump increments a probe counter; tasks run one at a time, and the function
// is invisible to the race detector so that harness bookkeeping never shows
// up as a report.
//
//go:norace
func bump(p *int) { *p++ }
