package gen

import (
	"reflect"
	"unsafe"
)

// SentinelRead reads every word reachable from v through EXPORTED fields,
// including the unused capacity of every slice and
// at least one access to every map, so that the race detector has a recorded
// read of another goroutine for any later write to that memory. It uses only
// reflect and raw loads: no fmt, no sync.
func SentinelRead(v interface{}) uint64 {
	s := &sentinel{seen: map[uintptr]bool{}}
	s.walk(reflect.ValueOf(v))
	return s.sink
}

type sentinel struct {
	seen map[uintptr]bool
	sink uint64
	objs int
}

func (s *sentinel) raw(p unsafe.Pointer, size uintptr) {
	if p == nil {
		return
	}
	i := uintptr(0)
	for ; i+8 <= size; i += 8 {
		s.sink += *(*uint64)(unsafe.Add(p, i))
	}
	for ; i < size; i++ {
		s.sink += uint64(*(*byte)(unsafe.Add(p, i)))
	}
}

func (s *sentinel) walk(v reflect.Value) {
	if !v.IsValid() {
		return
	}
	switch v.Kind() {
	case reflect.Ptr:
		if v.IsNil() {
			return
		}
		p := v.Pointer()
		if s.seen[p] {
			return
		}
		s.seen[p] = true
		s.objs++
		if v.Type().Elem().Kind() != reflect.Struct {
			s.raw(v.UnsafePointer(), v.Type().Elem().Size())
		}
		s.walk(v.Elem())
	case reflect.Interface:
		if !v.IsNil() {
			s.walk(v.Elem())
		}
	case reflect.Struct:
		// Only EXPORTED fields: they are what any goroutine may read without
		// synchronisation through the public API. An unexported field may be a
		// private cache with a locking discipline of its own; an unlocked read by
		// the sentinel would fabricate a race against correctly synchronised code.
		t := v.Type()
		for i := 0; i < v.NumField(); i++ {
			f := t.Field(i)
			if f.PkgPath != "" {
				continue
			}
			fv := v.Field(i)
			if fv.CanAddr() {
				switch fv.Kind() {
				case reflect.Struct, reflect.Array:
					// read field-wise below
				default:
					s.raw(fv.Addr().UnsafePointer(), f.Type.Size())
				}
			}
			s.walk(fv)
		}
	case reflect.Slice:
		if v.IsNil() || v.Cap() == 0 {
			return
		}
		p := v.Pointer()
		key := p ^ 0x5a5a5a5a
		if s.seen[key] {
			return
		}
		s.seen[key] = true
		if v.Type().Elem().Kind() != reflect.Struct {
			s.raw(v.UnsafePointer(), uintptr(v.Cap())*v.Type().Elem().Size())
		}
		var full reflect.Value
		if v.CanInterface() {
			full = v.Slice(0, v.Cap())
		} else {
			full = v // unexported: cannot reslice, walk len only
		}
		for i := 0; i < full.Len(); i++ {
			s.walk(full.Index(i))
		}
	case reflect.Array:
		for i := 0; i < v.Len(); i++ {
			s.walk(v.Index(i))
		}
	case reflect.Map:
		if v.IsNil() {
			return
		}
		it := v.MapRange()
		for it.Next() {
			s.walk(it.Key())
			s.walk(it.Value())
		}
		// one explicit lookup as well (mapaccess marks the header as read)
		s.sink += uint64(v.Len())
	}
}
