// Command sim is the simulation harness. It is built inside a scratch copy of
// the library (instrumented or pristine) by /verif/cmd/check and runs one
// worker, replay or digest job per process.
package main

import (
	"encoding/json"
	"fmt"
	"os"
	"runtime/debug"
	"strconv"
	"strings"

	"github.com/vektah/gqlparser/v2/verifsim"
)

func fatal(code int, format string, a ...interface{}) {
	fmt.Fprintf(os.Stderr, "sim: "+format+"\n", a...)
	os.Exit(code)
}

func writeJSON(path string, v interface{}) {
	b, err := json.MarshalIndent(v, "", " ")
	if err != nil {
		fatal(2, "marshal: %v", err)
	}
	if path == "" || path == "-" {
		os.Stdout.Write(append(b, '\n'))
		return
	}
	if err := os.WriteFile(path+".tmp", b, 0o644); err != nil {
		fatal(2, "write %s: %v", path, err)
	}
	if err := os.Rename(path+".tmp", path); err != nil {
		fatal(2, "rename %s: %v", path, err)
	}
}

func readJSON(path string, v interface{}) {
	b, err := os.ReadFile(path)
	if err != nil {
		fatal(2, "read %s: %v", path, err)
	}
	if err := json.Unmarshal(b, v); err != nil {
		fatal(2, "parse %s: %v", path, err)
	}
}

// instrumented reports whether this binary was built from an instrumented copy.
func instrumented() bool { return len(verifsim.SiteNames) > 0 }

func siteName(id int32) string {
	if id >= 0 && int(id) < len(verifsim.SiteNames) {
		return verifsim.SiteNames[id]
	}
	return fmt.Sprintf("site#%d", id)
}

func siteID(name string) int32 {
	for i, n := range verifsim.SiteNames {
		if n == name {
			return int32(i)
		}
	}
	return -1
}

// siteFile returns "file:line" of a site name "file:line#ord/kind".
func siteFileLine(name string) string {
	if i := strings.IndexByte(name, '#'); i >= 0 {
		return name[:i]
	}
	return name
}

var modeNames = []string{"canonical", "reverse", "rotate", "swap", "shuffle", "swappair", "swapnamed"}

func modeName(m int32) string {
	if m >= 0 && int(m) < len(modeNames) {
		return modeNames[m]
	}
	return "?"
}

func modeID(s string) int32 {
	for i, n := range modeNames {
		if n == s {
			return int32(i)
		}
	}
	return 0
}

var ballast [][]byte

// perturbHeap gives this process a heap layout and GC rhythm of its own
// (VERIF_BALLAST=n): anything the library derives from addresses or allocation
// order then differs between the fresh processes whose results are compared.
func perturbHeap() {
	n, _ := strconv.Atoi(os.Getenv("VERIF_BALLAST"))
	if n <= 0 {
		return
	}
	for i := 0; i < n*53; i++ {
		b := make([]byte, 16+(i*i*7+n*131)%4099)
		if i%3 != 0 {
			ballast = append(ballast, b)
		}
	}
	debug.SetGCPercent(25 + (n*37)%300)
}

func main() {
	perturbHeap()
	if len(os.Args) < 2 {
		fatal(2, "usage: sim <c10|c10-replay|c10-digest|c11|c11-replay|info> ...")
	}
	switch os.Args[1] {
	case "info":
		fmt.Printf("instrumented=%v sites=%d race=%v\n", instrumented(), len(verifsim.SiteNames), raceEnabled)
	case "session-dump":
		sessionDumpMain(os.Args[2:])
	case "gen-dump":
		genDumpMain(os.Args[2:])
	case "c10":
		c10Main(os.Args[2:])
	case "c10-replay":
		c10ReplayMain(os.Args[2:])
	case "c10-confirm":
		c10ConfirmMain(os.Args[2:])
	case "c10-one":
		c10OneMain(os.Args[2:])
	case "c10-isolated":
		c10IsolatedMain(os.Args[2:])
	case "c10-replay-desc":
		c10ReplayDescMain(os.Args[2:])
	case "c10-canon-min":
		c10CanonMinMain(os.Args[2:])
	case "c10-key":
		c10KeyMain(os.Args[2:])
	case "c10-escalate":
		c10EscalateMain(os.Args[2:])
	case "c10-history-witness":
		c10HistoryWitnessMain(os.Args[2:])
	case "c10-digest":
		c10DigestMain(os.Args[2:])
	case "c11":
		c11Main(os.Args[2:])
	case "c11-escalate":
		c11EscalateMain(os.Args[2:])
	case "c11-min":
		c11MinMain(os.Args[2:])
	case "c11-replay":
		c11ReplayMain(os.Args[2:])
	default:
		fatal(2, "unknown subcommand %q", os.Args[1])
	}
}
