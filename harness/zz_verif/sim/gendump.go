package main

import (
	"flag"
	"fmt"
	"sort"

	"github.com/vektah/gqlparser/v2"
	"github.com/vektah/gqlparser/v2/ast"
	"github.com/vektah/gqlparser/v2/zz_verif/gen"
)

// genDumpMain is a development aid: statistics (and optionally the texts) of
// what the typed generator produces, judged by the library itself.
func genDumpMain(args []string) {
	fs := flag.NewFlagSet("gen-dump", flag.ExitOnError)
	seed := fs.Uint64("seed", 1, "seed")
	n := fs.Int("n", 200, "pools")
	show := fs.Int("show", 0, "print the first N pools")
	showOK := fs.Int("show-ok", 0, "print N faulted docs that validate")
	cleanRules := map[string]int{}
	variantOK, variantBad := 0, 0
	showBad := fs.Int("show-bad", 0, "print N unexpected results (valid schema that fails to load, unfaulted doc that is invalid)")
	fs.Parse(args)
	var schemaOK, schemaBad, faultyLoaded, faultyRejected, docsClean, docsCleanValid, docsFaulted, docsFaultedInvalid, parseErr int
	loadErrs := map[string]int{}
	rules := map[string]int{}
	for i := 0; i < *n; i++ {
		r := gen.NewRng(gen.Mix(*seed, uint64(i)))
		seedBefore := *r
		_ = seedBefore
		p := gen.GenPoolFor(r, 2, 2, 6, 5)
		if i < *show {
			fmt.Printf("===== pool %d schema =====\n%s\n", i, p.Schema)
			for j, d := range p.Docs {
				fmt.Printf("----- doc %d -----\n%s\n", j, d)
			}
		}
		_, err := gqlparser.LoadSchema(&ast.Source{Name: "g", Input: p.Schema})
		if err != nil {
			schemaBad++
			if *showBad > 0 {
				*showBad--
				fmt.Printf("UNEXPECTED load error: %v\n%s\n", err, p.Schema)
			}
			continue
		}
		schemaOK++
		for _, v := range p.Variants {
			if _, err := gqlparser.LoadSchema(&ast.Source{Name: "v", Input: v}); err != nil {
				variantBad++
				if *showBad > 0 {
					*showBad--
					fmt.Printf("VARIANT rejected: %v\n", err)
				}
			} else {
				variantOK++
			}
		}
		for _, f := range p.FaultySchema {
			_, err := gqlparser.LoadSchema(&ast.Source{Name: "f", Input: f})
			if err == nil {
				faultyLoaded++
			} else {
				faultyRejected++
				loadErrs[template(err.Error())]++
			}
		}
		gs := gen.GenSchema(gen.NewRng(gen.Mix(*seed, uint64(i)) + 99))
		gtext := gs.Render(gen.NewRng(5))
		gsc, gerr := gqlparser.LoadSchema(&ast.Source{Name: "g2", Input: gtext})
		if gerr != nil {
			schemaBad++
			continue
		}
		for j := 0; j < 6; j++ {
			nf := 0
			if j >= 3 {
				nf = j - 2
			}
			d, noted := gen.GenDoc(r, gs, nf)
			_, errs := gqlparser.LoadQuery(gsc, d)
			if len(noted) == 0 {
				docsClean++
				if len(errs) == 0 {
					docsCleanValid++
				} else {
					for _, e := range errs {
						cleanRules[e.Rule]++
					}
					if *showBad > 0 {
						*showBad--
						fmt.Printf("UNFAULTED doc invalid: %v\n%s\n--- schema ---\n%s\n", errs, d, gtext)
					}
				}
			} else {
				docsFaulted++
				if len(errs) > 0 {
					docsFaultedInvalid++
				} else if *showOK > 0 {
					*showOK--
					fmt.Printf("FAULTED doc (%v) valid:\n%s\n", noted, d)
				}
				for _, e := range errs {
					if e.Rule == "" {
						parseErr++
					}
					rules[e.Rule]++
				}
			}
		}
	}
	_ = docsFaulted
	fmt.Printf("schemas: %d load, %d unexpectedly rejected; faulty variants: %d rejected, %d loaded anyway\n", schemaOK, schemaBad, faultyRejected, faultyLoaded)
	fmt.Printf("valid variants: %d load, %d rejected\n", variantOK, variantBad)
	fmt.Printf("unfaulted docs: %d, valid %d; faulted docs: %d, invalid %d; parse errors %d\n", docsClean, docsCleanValid, docsFaulted, docsFaultedInvalid, parseErr)
	fmt.Printf("rules hit by UNFAULTED docs: %v\n", cleanRules)
	var ks []string
	for k := range rules {
		ks = append(ks, k)
	}
	sort.Strings(ks)
	for _, k := range ks {
		fmt.Printf("  rule %-40s %d\n", k, rules[k])
	}
	ks = ks[:0]
	for k := range loadErrs {
		ks = append(ks, k)
	}
	sort.Strings(ks)
	for _, k := range ks {
		fmt.Printf("  load error %-80s %d\n", k, loadErrs[k])
	}
	pk := gen.Probes()
	ks = ks[:0]
	for k := range pk {
		ks = append(ks, k)
	}
	sort.Strings(ks)
	for _, k := range ks {
		fmt.Printf("  probe %-50s %d\n", k, pk[k])
	}
}

// sessionDumpMain prints the pools and operations of one generated session.
func sessionDumpMain(args []string) {
	fs := flag.NewFlagSet("session-dump", flag.ExitOnError)
	seed := fs.Uint64("seed", 1, "session seed")
	src := fs.String("source", "gen", "source")
	fs.Parse(args)
	s := genSession(*seed, *src)
	writeJSON("-", s)
}
