package main

import (
	"bytes"
	"encoding/json"
	"flag"
	"fmt"
	"hash/fnv"
	"io"
	"os"
	"os/exec"
	"sort"
	"strings"
	"time"

	"github.com/vektah/gqlparser/v2"
	"github.com/vektah/gqlparser/v2/ast"
	"github.com/vektah/gqlparser/v2/formatter"
	"github.com/vektah/gqlparser/v2/gqlerror"
	"github.com/vektah/gqlparser/v2/parser"
	"github.com/vektah/gqlparser/v2/validator"
	"github.com/vektah/gqlparser/v2/validator/rules"
	"github.com/vektah/gqlparser/v2/verifsim"
	"github.com/vektah/gqlparser/v2/zz_verif/gen"
)

// ---------- session model ----------

type OrderRuleJ struct {
	Site string `json:"site"` // file:line#ord/kind
	Nth  int32  `json:"nth"`
	Perm string `json:"perm"`
	Arg  uint64 `json:"arg,omitempty"`
	KeyA string `json:"key_a,omitempty"`
	KeyB string `json:"key_b,omitempty"`
	N    int32  `json:"n_keys,omitempty"` // informational
}

type Op struct {
	Kind   string       `json:"op"` // load | fresh | first | again | query | noise
	S      int          `json:"s"`
	D      int          `json:"d"`
	Orders []OrderRuleJ `json:"orders,omitempty"`
	// noise: a call through some OTHER entry point of the library. Its result
	// is not an observation; it is history that must not change any later one.
	// Clock: the simulated clock / randomness streams this operation got, kept
	// in explicit (replay) form only when the operation actually used them
	Clock *ClockJ `json:"clock,omitempty"`
	Noise string  `json:"noise,omitempty"` // limit-query | limit-schema | fmt-schema | fmt-doc | vars | argmaps | rules | json | prefix-load | flood
	Arg   uint64  `json:"arg,omitempty"`
	// Depth: extra stack frames between the harness and the library call (the
	// caller's stack depth is part of the environment a result must not depend on)
	Depth int `json:"depth,omitempty"`
	// Align: the texts this operation hands to the library start Align bytes
	// past an 8-byte boundary (same bytes, another place in memory)
	Align int `json:"align,omitempty"`
}

// shifted returns a string equal to text whose first byte sits k bytes past
// the start of a fresh allocation.
func shifted(text string, k int) string {
	if k <= 0 || k > 7 {
		return text
	}
	return (strings.Repeat("#", k) + text)[k:]
}

// atDepth calls f with n extra frames on the stack.
//
//go:noinline
func atDepth(n int, f func()) {
	if n <= 0 {
		f()
		return
	}
	atDepth(n-1, f)
}

type ClockJ struct {
	Seed uint64 `json:"seed"`
	Mode int32  `json:"mode"` // 0 normal, 1 fast, 2 slow, 3 jumpy
}

type NamedText struct {
	Name string `json:"name"`
	Text string `json:"text"`
}

type Session struct {
	// ReuseSources: load/fresh/first hand the library the SAME *ast.Source
	// object for a text every time (a caller may keep its Source values);
	// otherwise a new one per call. NamedDocs: query documents are parsed from
	// named sources.
	ReuseSources bool `json:"reuse_sources,omitempty"`
	NamedDocs    bool `json:"named_docs,omitempty"`
	// Splits[i]: byte offsets at which schema text i is cut into several sources
	// handed to LoadSchema together (empty: one source). SplitSameName: all
	// parts carry the schema's name, else name#k.
	Splits        [][]int `json:"splits,omitempty"`
	SplitSameName bool    `json:"split_same_name,omitempty"`
	// SplitBuiltIn: the first part of a split schema is handed over as a
	// BuiltIn source (as a server does with its own prelude of directives)
	SplitBuiltIn bool `json:"split_builtin,omitempty"`

	Seed      uint64      `json:"seed"`
	Source    string      `json:"source"`
	Schemas   []NamedText `json:"schemas"`
	Docs      []string    `json:"docs"`
	Ops       []Op        `json:"ops"`
	Mix       string      `json:"mix,omitempty"`
	Weights   [5]uint8    `json:"weights"`
	SiteOnly  []string    `json:"site_only,omitempty"`
	OrderSeed uint64      `json:"order_seed"`
	Explicit  bool        `json:"explicit"`
}

func (o Op) String() string {
	if o.Kind == "load" {
		return fmt.Sprintf("load(%d)", o.S)
	}
	if o.Kind == "noise" {
		return fmt.Sprintf("noise:%s(%d,%d)", o.Noise, o.S, o.D)
	}
	return fmt.Sprintf("%s(%d,%d)", o.Kind, o.S, o.D)
}

// ---------- execution ----------

type Obs struct {
	Key       string // "L|<schema idx>" or "V|<schema idx>|<doc idx>"
	Rendering string
	Op        int
}

type execState struct {
	sess    *Session
	schemas []*ast.Schema
	docs    map[[2]int]*ast.QueryDocument
	ssrc    map[int][]*ast.Source // reused schema sources
	dsrc    map[int]*ast.Source   // reused document sources
	align   int                   // Op.Align of the operation being executed
}

func cutsOf(s *Session, i int) []int {
	if i < len(s.Splits) {
		return s.Splits[i]
	}
	return nil
}

// buildSources cuts one schema text into the sources LoadSchema receives.
func buildSourcesB(name, text string, cuts []int, sameName, builtIn bool) []*ast.Source {
	out := buildSources(name, text, cuts, sameName)
	if builtIn && len(out) > 1 {
		out[0].BuiltIn = true
	}
	return out
}

func buildSources(name, text string, cuts []int, sameName bool) []*ast.Source {
	var out []*ast.Source
	prev := 0
	for k, c := range cuts {
		if c <= prev || c >= len(text) {
			continue
		}
		n := name
		if !sameName {
			n = fmt.Sprintf("%s#%d", name, k)
		}
		out = append(out, &ast.Source{Name: n, Input: text[prev:c]})
		prev = c
	}
	n := name
	if !sameName && len(out) > 0 {
		n = fmt.Sprintf("%s#%d", name, len(out))
	}
	return append(out, &ast.Source{Name: n, Input: text[prev:]})
}

func (x *execState) schemaSource(i int) []*ast.Source {
	s := x.sess
	if s.ReuseSources {
		if src := x.ssrc[i]; src != nil {
			return src
		}
	}
	src := buildSourcesB(s.Schemas[i].Name, shifted(s.Schemas[i].Text, x.align), cutsOf(s, i), s.SplitSameName, s.SplitBuiltIn)
	if s.ReuseSources {
		x.ssrc[i] = src
	}
	return src
}

func docName(s *Session, j int) string {
	if s.NamedDocs {
		return fmt.Sprintf("doc%d.graphql", j)
	}
	return ""
}

func (x *execState) docSource(j int) *ast.Source {
	s := x.sess
	if s.ReuseSources {
		if src := x.dsrc[j]; src != nil {
			return src
		}
	}
	src := &ast.Source{Name: docName(s, j), Input: shifted(s.Docs[j], x.align)}
	if s.ReuseSources {
		x.dsrc[j] = src
	}
	return src
}

var clockReads, randDraws int

type opResult struct {
	clock      *ClockJ
	obs        []Obs
	visits     []verifsim.Visit
	skipped    bool
	overBudget bool
}

// opYieldBudget: yield points one operation may pass. Measured: LoadSchema of
// the largest generated schema about 0.2 M, any validation below 0.1 M.
const opYieldBudget = 6_000_000

var opsOverBudget int

const overBudgetMark = "over-yield-budget (no result; termination is not this check's subject)"

func ruleIDs(names []string) []int32 {
	var out []int32
	for _, n := range names {
		if id := siteID(n); id >= 0 {
			out = append(out, id)
		}
	}
	return out
}

func (x *execState) orderCfg(i int, capture bool) verifsim.OrderCfg {
	s := x.sess
	c := verifsim.OrderCfg{CaptureKeys: capture}
	if s.Explicit {
		c.Explicit = true
		for _, r := range s.Ops[i].Orders {
			c.Rules = append(c.Rules, verifsim.OrderRule{Site: siteID(r.Site), Nth: r.Nth, Mode: modeID(r.Perm), Arg: r.Arg, KeyA: r.KeyA, KeyB: r.KeyB})
		}
		return c
	}
	c.Seed = gen.Mix(s.OrderSeed, uint64(i))
	c.Weights = s.Weights
	c.SiteOnly = ruleIDs(s.SiteOnly)
	return c
}

func (x *execState) clockCfg(i int) verifsim.ClockCfg {
	s := x.sess
	if s.Explicit {
		if c := s.Ops[i].Clock; c != nil {
			return verifsim.ClockCfg{Seed: c.Seed, Mode: c.Mode}
		}
		return verifsim.ClockCfg{}
	}
	seed := gen.Mix(s.OrderSeed^0xc10c, uint64(i))
	return verifsim.ClockCfg{Seed: seed, Mode: int32(seed>>7) & 3}
}

func validateText(schema *ast.Schema, text string) (*ast.QueryDocument, gqlerror.List) {
	return validateSource(schema, &ast.Source{Input: text})
}

func validateSource(schema *ast.Schema, src *ast.Source) (*ast.QueryDocument, gqlerror.List) {
	doc, err := parser.ParseQuery(src)
	if err != nil {
		if ge, ok := err.(*gqlerror.Error); ok {
			return nil, gqlerror.List{ge}
		}
		return nil, gqlerror.List{gqlerror.Wrap(err)}
	}
	return doc, validator.Validate(schema, doc)
}

func (x *execState) runOp(i int, capture bool) (res opResult) {
	s := x.sess
	op := s.Ops[i]
	if op.S < 0 || op.S >= len(s.Schemas) || (op.Kind != "load" && (op.D < 0 || op.D >= len(s.Docs))) {
		res.skipped = true
		return
	}
	lkey := fmt.Sprintf("L|%d", op.S)
	vkey := fmt.Sprintf("V|%d|%d", op.S, op.D)
	src := func() []*ast.Source { return x.schemaSource(op.S) }
	switch op.Kind {
	case "noise":
		if op.Noise != "limit-query" && op.Noise != "limit-schema" && op.Noise != "replace-rule" && op.Noise != "prefix-load" && x.schemas[op.S] == nil {
			res.skipped = true
			return
		}
	case "first", "query":
		if x.schemas[op.S] == nil {
			res.skipped = true
			return
		}
	case "again":
		if x.schemas[op.S] == nil || x.docs[[2]int{op.S, op.D}] == nil {
			res.skipped = true
			return
		}
	}
	verifsim.BeginOp(x.orderCfg(i, capture))
	defer func() { res.visits = verifsim.EndOp() }()
	cc := x.clockCfg(i)
	verifsim.BeginClock(cc)
	defer func() {
		if rd, dr := verifsim.ClockUse(); rd+dr > 0 {
			res.clock = &ClockJ{cc.Seed, cc.Mode}
			clockReads += int(rd)
			randDraws += int(dr)
		}
	}()
	verifsim.ArmOpBudget(opYieldBudget)
	defer func() {
		if verifsim.DisarmOpBudget() {
			// the operation passed more yield points than any terminating one
			// does: no result (termination is C02's subject). Nothing is compared.
			res.obs = nil
			res.overBudget = true
			opsOverBudget++
		}
	}()
	x.align = op.Align
	pan := protect(func() {
		atDepth(op.Depth, func() { x.runKind(i, op, lkey, vkey, src, &res) })
	})
	x.align = 0
	if pan != "" {
		// a panic is the library's answer for these texts (C02's subject, not
		// C10's): it is compared like any other result
		k := vkey
		if op.Kind == "load" || (op.Kind == "fresh" && len(res.obs) == 0) {
			k = lkey
		}
		res.obs = append(res.obs, Obs{k, pan, i})
		panicsSeen++
	}
	return
}

// runKind makes the library calls of one operation.
func (x *execState) runKind(i int, op Op, lkey, vkey string, src func() []*ast.Source, res *opResult) {
	s := x.sess
	{
		switch op.Kind {
		case "load":
			sc, err := gqlparser.LoadSchema(src()...)
			if err == nil {
				x.schemas[op.S] = sc
			}
			res.obs = append(res.obs, Obs{lkey, gen.RenderError(err), i})
		case "fresh":
			sc, err := gqlparser.LoadSchema(src()...)
			res.obs = append(res.obs, Obs{lkey, gen.RenderError(err), i})
			if err == nil {
				_, errs := validateSource(sc, x.docSource(op.D))
				res.obs = append(res.obs, Obs{vkey, gen.RenderErrors(errs), i})
			}
		case "noise":
			x.noise(op)
		case "first":
			doc, errs := validateSource(x.schemas[op.S], x.docSource(op.D))
			if doc != nil {
				x.docs[[2]int{op.S, op.D}] = doc
			}
			res.obs = append(res.obs, Obs{vkey, gen.RenderErrors(errs), i})
		case "again":
			errs := validator.Validate(x.schemas[op.S], x.docs[[2]int{op.S, op.D}])
			res.obs = append(res.obs, Obs{vkey, gen.RenderErrors(errs), i})
		case "query":
			// LoadQuery is an entry point of its own: the property promises that each
			// way of validating is repeatable, not that two entry points agree with
			// each other (a change to one of them must not make this check cry wolf)
			_, errs := gqlparser.LoadQuery(x.schemas[op.S], shifted(s.Docs[op.D], op.Align))
			res.obs = append(res.obs, Obs{fmt.Sprintf("Q|%d|%d", op.S, op.D), gen.RenderErrors(errs), i})
		default:
			res.skipped = true
		}
	}
}

var panicsSeen int

func protect(f func()) (p string) {
	defer func() {
		if r := recover(); r != nil {
			p = fmt.Sprint("panic: ", r)
		}
	}()
	f()
	return ""
}

// noise performs a call through another entry point of the library. Nothing
// it returns is an observation (those entry points belong to other
// properties); a panic is swallowed.
func (x *execState) noise(op Op) {
	s := x.sess
	r := gen.NewRng(op.Arg)
	protect(func() {
		switch op.Noise {
		case "limit-query":
			parser.ParseQueryWithTokenLimit(&ast.Source{Name: docName(s, op.D), Input: s.Docs[op.D]}, r.Range(1, 80))
		case "limit-schema":
			if r.Chance(1, 2) {
				parser.ParseSchemaWithLimit(&ast.Source{Name: s.Schemas[op.S].Name, Input: s.Schemas[op.S].Text}, r.Range(1, 200))
			} else {
				parser.ParseSchemasWithLimit(r.Range(1, 200), validator.Prelude, &ast.Source{Name: s.Schemas[op.S].Name, Input: s.Schemas[op.S].Text})
			}
		case "fmt-schema":
			var b strings.Builder
			formatter.NewFormatter(&b, formatter.WithIndent(gen.Pick(r, []string{"\t", "  ", "    "}))).FormatSchema(x.schemas[op.S])
		case "fmt-doc":
			if d := x.docs[[2]int{op.S, op.D}]; d != nil {
				var b strings.Builder
				formatter.NewFormatter(&b).FormatQueryDocument(d)
			}
		case "flood":
			// volume: many small distinct documents (distinct names, escaped and
			// non-ASCII strings, unknown fields and types) through the normal entry
			// point. Bounded structures - rings, pools, caches with eviction, intern
			// tables, wrapping counters - behave differently only once they are full.
			if sc := x.schemas[op.S]; sc != nil {
				for i, n := 0, r.Range(40, 400); i < n; i++ {
					k := r.Intn(1 << 20)
					doc := fmt.Sprintf("query Flood%d($v%d: Strng%d) {\n  fld%d(arg%d: \"esc\\n%d\\t\\\"q%d\\\" \\u00e9 é\") { sub%d }\n  ... on Typ%d { __typename }\n}\n", k, k, k%7, k, k%5, k, k, k%11, k%13)
					gqlparser.LoadQuery(sc, doc)
				}
			}
		case "prefix-load":
			// a shorter source list that shares its backing array with the list
			// this session keeps loading (in sessions that reuse their sources)
			if src := x.schemaSource(op.S); len(src) > 1 {
				gqlparser.LoadSchema(src[:r.Range(1, len(src)-1)]...)
			}
		case "replace-rule":
			// a neutral replacement: the same function under the same name
			rl := []validator.Rule{rules.KnownArgumentNamesRule, rules.FieldsOnCorrectTypeRule, rules.NoUnusedVariablesRule, rules.ScalarLeafsRule, rules.KnownTypeNamesRule, rules.UniqueArgumentNamesRule}
			x := gen.Pick(r, rl)
			validator.ReplaceRule(x.Name, x.RuleFunc)
		case "vars", "argmaps":
			// on the kept (already validated) document when it was valid - it is
			// validated again later - else on a document of its own
			d := x.docs[[2]int{op.S, op.D}]
			if d == nil || r.Chance(1, 2) || (op.Noise == "vars" && len(validator.Validate(x.schemas[op.S], d)) > 0) {
				var errs gqlerror.List
				d, errs = validateSource(x.schemas[op.S], &ast.Source{Input: s.Docs[op.D]})
				if d == nil || len(errs) > 0 {
					return
				}
			}
			vars := gen.GenVars(r, x.schemas[op.S], d)
			if op.Noise == "vars" {
				for _, o := range d.Operations {
					validator.VariableValues(x.schemas[op.S], o, vars)
				}
			} else {
				// (argument maps are resolved wherever the walker linked a
				// definition, also in documents that did not validate; a subset of
				// the fields, as an executor resolves one of several merged fields)
				var b strings.Builder
				gen.RenderArgMapsSome(&b, d, vars, r)
				if os.Getenv("VERIF_TRACE") != "" {
					fmt.Fprintf(os.Stderr, "noise argmaps kept=%v: %s\n", d == x.docs[[2]int{op.S, op.D}], b.String())
				}
			}
		case "rules":
			d, err := parser.ParseQuery(&ast.Source{Input: s.Docs[op.D]})
			if err != nil {
				return
			}
			rl := []validator.Rule{rules.KnownArgumentNamesRuleWithoutSuggestions, rules.FieldsOnCorrectTypeRuleWithoutSuggestions, rules.KnownTypeNamesRuleWithoutSuggestions, rules.ValuesOfCorrectTypeRuleWithoutSuggestions, rules.NoUnusedVariablesRule, rules.OverlappingFieldsCanBeMergedRule}
			n := r.Range(1, len(rl))
			validator.Validate(x.schemas[op.S], d, rl[:n]...)
		case "json":
			if d := x.docs[[2]int{op.S, op.D}]; d != nil {
				if b, err := json.Marshal(d); err == nil {
					var back ast.QueryDocument
					json.Unmarshal(b, &back)
				}
			}
		}
	})
}

var noiseKinds = []string{"limit-query", "limit-schema", "fmt-schema", "fmt-doc", "vars", "argmaps", "rules", "json", "replace-rule", "prefix-load", "flood"}

type sessionRun struct {
	clocks     []*ClockJ // per op, when used
	obs        []Obs
	visits     [][]verifsim.Visit // per op
	executed   int
	overBudget int
}

func runSession(s *Session, capture bool) sessionRun {
	x := &execState{sess: s, schemas: make([]*ast.Schema, len(s.Schemas)), docs: map[[2]int]*ast.QueryDocument{}, ssrc: map[int][]*ast.Source{}, dsrc: map[int]*ast.Source{}}
	var r sessionRun
	r.visits = make([][]verifsim.Visit, len(s.Ops))
	r.clocks = make([]*ClockJ, len(s.Ops))
	for i := range s.Ops {
		res := x.runOp(i, capture)
		if !res.skipped {
			r.executed++
		}
		if res.overBudget {
			r.overBudget++
		}
		r.obs = append(r.obs, res.obs...)
		r.visits[i] = res.visits
		r.clocks[i] = res.clock
	}
	return r
}

// explicitForm returns a copy of s in which every op carries the permutations
// it actually got (non-canonical, effective ones only) as explicit rules.
func explicitForm(s *Session, r sessionRun) *Session {
	c := *s
	c.Explicit = true
	c.Ops = make([]Op, len(s.Ops))
	for i, op := range s.Ops {
		op.Orders = nil
		op.Clock = r.clocks[i]
		for _, v := range r.visits[i] {
			if v.Mode == verifsim.OrdCanonical || !v.Effective {
				continue
			}
			op.Orders = append(op.Orders, OrderRuleJ{Site: siteName(v.Site), Nth: v.Nth, Perm: modeName(v.Mode), Arg: v.Arg, KeyA: v.KeyA, KeyB: v.KeyB, N: v.N})
		}
		c.Ops[i] = op
	}
	return &c
}

// ---------- oracle ----------

type Witness struct {
	Key            string `json:"key"`
	Kind           string `json:"kind"` // validate | load
	OpFirst        int    `json:"op_first"`
	OpLater        int    `json:"op_later"`
	RenderingFirst string `json:"rendering_first"`
	RenderingLater string `json:"rendering_later"`
	FirstDiffLine  string `json:"first_diff_line"`
	Rule           string `json:"rule"`
	SessionFirst   int    `json:"session_first,omitempty"` // multi-session replays: index into history+session
	SessionLater   int    `json:"session_later,omitempty"`
}

func firstDiffLine(a, b string) (string, string) {
	la, lb := strings.Split(a, "\n"), strings.Split(b, "\n")
	for i := 0; i < len(la) || i < len(lb); i++ {
		var x, y string
		if i < len(la) {
			x = la[i]
		}
		if i < len(lb) {
			y = lb[i]
		}
		if x != y {
			return x, y
		}
	}
	return "", ""
}

func ruleOfLine(l string) string {
	if i := strings.Index(l, "rule="); i >= 0 {
		r := l[i+5:]
		if j := strings.IndexByte(r, ' '); j >= 0 {
			r = r[:j]
		}
		if r == "" {
			return "(none)"
		}
		return r
	}
	return "(none)"
}

// checkObs applies the reference model (a dictionary keyed by the texts) to
// the observations of one session: the first observation of a key defines its
// value, every later one must be byte-identical.
func checkObs(s *Session, obs []Obs) *Witness {
	type first struct {
		r  string
		op int
	}
	dict := map[string]first{}
	textKey := func(k string) string { return sessionTextKey(s, k) }
	for _, o := range obs {
		tk := textKey(o.Key)
		f, ok := dict[tk]
		if !ok {
			dict[tk] = first{o.Rendering, o.Op}
			continue
		}
		if f.r != o.Rendering {
			kind := "validate"
			if strings.HasPrefix(o.Key, "L|") {
				kind = "load"
			}
			x, y := firstDiffLine(f.r, o.Rendering)
			rule := ruleOfLine(x)
			if x == "" {
				rule = ruleOfLine(y)
			}
			return &Witness{Key: o.Key, Kind: kind, OpFirst: f.op, OpLater: o.Op, RenderingFirst: f.r, RenderingLater: o.Rendering, FirstDiffLine: x + "  <>  " + y, Rule: rule}
		}
	}
	return nil
}

// ---------- generation ----------

var mapSites = func() []string {
	var out []string
	for _, n := range verifsim.SiteNames {
		if strings.HasSuffix(n, "/maprange") || strings.HasSuffix(n, "/mapkeys") {
			out = append(out, n)
		}
	}
	return out
}()

type mixPreset struct {
	name string
	w    [5]uint8
}

var mixes = []mixPreset{
	{"canonical", [5]uint8{1, 0, 0, 0, 0}},
	{"reverse", [5]uint8{1, 3, 0, 0, 0}},
	{"rotate", [5]uint8{1, 0, 3, 0, 0}},
	{"swap", [5]uint8{1, 0, 0, 3, 0}},
	{"shuffle", [5]uint8{1, 0, 0, 0, 3}},
	{"mixed", [5]uint8{2, 1, 1, 2, 2}},
	{"all-shuffle", [5]uint8{0, 0, 0, 0, 1}},
}

func genSession(seed uint64, source string) *Session {
	r := gen.NewRng(seed)
	s := &Session{Seed: seed, Source: source}
	buildPools(r.Fork(1), s)
	if r.Chance(1, 5) {
		// in-memory sources often have no name
		for i := range s.Schemas {
			s.Schemas[i].Name = ""
		}
	}
	// order mix
	m := mixes[r.Weighted([]int{1, 2, 2, 3, 4, 4, 3})]
	s.Mix = m.name
	s.Weights = m.w
	s.OrderSeed = r.U64()
	if len(mapSites) > 0 && r.Chance(1, 2) {
		s.SiteOnly = []string{gen.Pick(r, mapSites)}
		if r.Chance(1, 4) {
			s.SiteOnly = append(s.SiteOnly, gen.Pick(r, mapSites))
		}
	}
	// operations
	n := r.Range(4, 40)
	if r.Chance(1, 2) {
		n = r.Range(4, 12)
	}
	ns, nd := len(s.Schemas), len(s.Docs)
	for i := 0; i < ns; i++ {
		if r.Chance(4, 5) {
			s.Ops = append(s.Ops, Op{Kind: "load", S: i})
		}
	}
	s.ReuseSources = r.Chance(1, 3)
	s.NamedDocs = r.Chance(1, 4)
	if r.Chance(1, 4) {
		// schemas arrive in several files
		if len(s.Splits) == 0 {
			s.SplitSameName = r.Chance(1, 2)
			s.SplitBuiltIn = r.Chance(1, 4)
		}
		for len(s.Splits) < len(s.Schemas) {
			s.Splits = append(s.Splits, nil)
		}
		for i := range s.Schemas {
			if len(s.Splits[i]) > 0 {
				continue
			}
			chunks := splitChunks(s.Schemas[i].Text)
			if len(chunks) < 3 {
				continue
			}
			var offs []int
			off := 0
			for _, c := range chunks[:len(chunks)-1] {
				off += len(c)
				offs = append(offs, off)
			}
			for k, n := 0, r.Range(1, 2); k < n; k++ {
				s.Splits[i] = append(s.Splits[i], gen.Pick(r, offs))
			}
			sort.Ints(s.Splits[i])
		}
	}
	noisy := r.Chance(1, 2) // half of the sessions also go through other entry points
	kinds := []string{"load", "fresh", "first", "again", "query", "noise"}
	for len(s.Ops) < n {
		w := []int{1, 3, 4, 4, 3, 0}
		if noisy {
			w[5] = 4
		}
		k := kinds[r.Weighted(w)]
		op := Op{Kind: k, S: r.Intn(ns)}
		if k == "noise" {
			op.Noise = gen.Pick(r, noiseKinds)
			op.Arg = r.U64()
		}
		if r.Chance(1, 3) {
			op.Depth = gen.Pick(r, []int{25, 120, 235, 250, 400, 1000})
		}
		if r.Chance(1, 3) {
			op.Align = r.Range(1, 7)
		}
		if k != "load" {
			if nd == 0 {
				continue
			}
			op.D = r.Intn(nd)
			if (k == "again" || (k == "noise" && (op.Noise == "argmaps" || op.Noise == "vars" || op.Noise == "fmt-doc" || op.Noise == "json"))) && r.Chance(2, 3) {
				// prefer a pair that has been validated before
				var prev []Op
				for _, p := range s.Ops {
					if p.Kind == "first" {
						prev = append(prev, p)
					}
				}
				if len(prev) > 0 {
					p := gen.Pick(r, prev)
					op.S, op.D = p.S, p.D
					if k == "again" && noisy && r.Chance(1, 4) {
						// volume between the first validation of a document object and
						// its re-validation
						s.Ops = append(s.Ops, Op{Kind: "noise", S: p.S, D: p.D, Noise: "flood", Arg: r.U64()})
					}
				}
			}
		}
		s.Ops = append(s.Ops, op)
	}
	return s
}

func buildPools(r *gen.Rng, s *Session) {
	switch s.Source {
	case "gen":
		buildPoolsGen(r, s)
	default:
		buildPoolsCorpus(r, s)
	}
}

func buildPoolsCorpus(r *gen.Rng, s *Session) {
	c := gen.Corpus
	si := r.Intn(len(c.Schemas))
	s.Schemas = append(s.Schemas, NamedText{fmt.Sprintf("schemas.yml[%d]", si), c.Schemas[si]})
	if r.Chance(1, 3) {
		sj := r.Intn(len(c.Schemas))
		s.Schemas = append(s.Schemas, NamedText{fmt.Sprintf("schemas.yml[%d]", sj), c.Schemas[sj]})
	}
	if r.Chance(1, 3) {
		if r.Chance(1, 2) {
			f := gen.Pick(r, c.SchemaCases)
			s.Schemas = append(s.Schemas, NamedText{"case.graphql", f.Text})
		} else {
			f := gen.Pick(r, c.Files)
			s.Schemas = append(s.Schemas, NamedText{f.Src, f.Text})
		}
	}
	nd := r.Range(1, 6)
	for i := 0; i < nd; i++ {
		pool := c.BySchema[si]
		if len(pool) == 0 || r.Chance(1, 6) {
			s.Docs = append(s.Docs, gen.Pick(r, c.Cases).Query)
		} else {
			s.Docs = append(s.Docs, c.Cases[gen.Pick(r, pool)].Query)
		}
	}
}

// ---------- worker ----------

type c10Violation struct {
	Class     string   `json:"class"`
	Replay    string   `json:"replay"`
	Witness   *Witness `json:"witness"`
	Site      string   `json:"site"`
	Seed      uint64   `json:"session_seed"`
	Worker    int      `json:"worker"`
	Index     int      `json:"session_index"`
	Canonical bool     `json:"canonical"`
}

type c10Stats struct {
	Worker            int               `json:"worker"`
	Seed              uint64            `json:"seed"`
	FirstSessionSeed  uint64            `json:"first_session_seed"`
	LastSessionSeed   uint64            `json:"last_session_seed"`
	Sessions          int               `json:"sessions"`
	SessionsBySource  map[string]int    `json:"sessions_by_source"`
	SessionsByMix     map[string]int    `json:"sessions_by_mix"`
	Ops               int               `json:"ops"`
	OpsByKind         map[string]int    `json:"ops_by_kind"`
	OpsSkipped        int               `json:"ops_skipped"`
	Observations      int               `json:"observations"`
	Compared          int               `json:"compared"`           // observations checked against an earlier one (in-session)
	ComparedGlobal    int               `json:"compared_global"`    // ... against an earlier session's observation
	DistinctKeys      int               `json:"distinct_keys"`      // distinct text keys seen by this worker
	DistinctTemplates int               `json:"distinct_templates"` // distinct error-message templates
	Templates         []string          `json:"templates,omitempty"`
	RulesSeen         map[string]int    `json:"rules_seen"`
	VisitsBySite      map[string]int    `json:"visits_by_site"`
	VisitsByMode      map[string]int    `json:"visits_by_mode"`
	EffectiveBySite   map[string]int    `json:"effective_by_site"`
	EffectiveSessions int               `json:"effective_sessions"`
	EffectiveHashes   []uint64          `json:"effective_hashes,omitempty"`
	InvalidValidate   int               `json:"invalid_validate_observations"`
	LoadErrors        int               `json:"load_error_observations"`
	Probes            map[string]int    `json:"probes"`
	WallS             float64           `json:"wall_s"`
	Violations        []c10Violation    `json:"violations"`
	Samples           []*Session        `json:"samples,omitempty"`
	CanonDigest       map[string]uint64 `json:"canon_digest,omitempty"`
	Log               []string          `json:"log,omitempty"`
	// sessions in which an operation was cut off at the yield budget (the
	// uninstrumented children skip them: they have no yield points to count)
	OverBudgetSessions []uint64 `json:"over_budget_sessions,omitempty"`

	unknownViolations int
}

func hashStr(s string) uint64 {
	h := fnv.New64a()
	h.Write([]byte(s))
	return h.Sum64()
}

// template reduces a message to its shape: quoted parts and numbers removed.
func template(msg string) string {
	var b strings.Builder
	inq := false
	for i := 0; i < len(msg); i++ {
		c := msg[i]
		if c == '"' && (i == 0 || msg[i-1] != '\\') {
			inq = !inq
			if !inq {
				b.WriteString(`"_"`)
			}
			continue
		}
		if inq {
			continue
		}
		if c >= '0' && c <= '9' {
			if b.Len() == 0 || b.String()[b.Len()-1] != '#' {
				b.WriteByte('#')
			}
			continue
		}
		b.WriteByte(c)
	}
	return b.String()
}

func c10Main(args []string) {
	fs := flag.NewFlagSet("c10", flag.ExitOnError)
	seed := fs.Uint64("seed", 1, "VERIF_SEED")
	worker := fs.Int("worker", 0, "worker index")
	wall := fs.Duration("wall", 10*time.Second, "wall budget")
	maxSessions := fs.Int("sessions", 0, "stop after this many sessions (0 = wall only)")
	out := fs.String("out", "-", "result file")
	replayDir := fs.String("replays", ".", "directory for replay files")
	sources := fs.String("sources", "corpus,gen", "workload sources")
	canonical := fs.Bool("canonical", false, "force the canonical order in every session (cross-process / pristine comparison); records a digest per key")
	evlog := fs.Bool("evlog", false, "record a full event log (determinism self-test)")
	known := fs.String("known", "", "violation classes (separated by ;;) that are listed known findings: recorded, exploration continues")
	isoOut := fs.String("isolate-out", "", "canonical mode: write sampled keys (texts + in-session result) for the isolated fresh-process oracle")
	isoCap := fs.Int("isolate-cap", 600, "at most this many keys in --isolate-out")
	fs.Parse(args)
	var isoKeys []isoKey
	isoSeen := map[uint64]bool{}
	var overSessions []uint64
	knownSet := map[string]bool{}
	for _, k := range strings.Split(*known, ";;") {
		if k != "" {
			knownSet[k] = true
		}
	}

	if !instrumented() && !*canonical {
		fatal(2, "c10 exploration needs an instrumented build")
	}
	srcs := strings.Split(*sources, ",")
	st := &c10Stats{Worker: *worker, Seed: *seed, SessionsBySource: map[string]int{}, SessionsByMix: map[string]int{}, OpsByKind: map[string]int{},
		RulesSeen: map[string]int{}, VisitsBySite: map[string]int{}, VisitsByMode: map[string]int{}, EffectiveBySite: map[string]int{}, Probes: map[string]int{}}
	if *canonical {
		st.CanonDigest = map[string]uint64{}
	}
	type gfirst struct {
		h    uint64
		seed uint64
		src  string
	}
	global := map[uint64]gfirst{}
	templates := map[string]bool{}
	effHashes := map[uint64]bool{}
	t0 := time.Now()
	wseed := gen.Mix(*seed, uint64(*worker)+1000)
	for n := 0; ; n++ {
		if *maxSessions > 0 && n >= *maxSessions {
			break
		}
		if *maxSessions == 0 && time.Since(t0) > *wall {
			break
		}
		if st.unknownViolations > 0 || len(st.Violations) >= 25 {
			break
		}
		sseed := gen.Mix(wseed, uint64(n))
		src := srcs[n%len(srcs)]
		s := genSession(sseed, src)
		if os.Getenv("VERIF_TRACE") != "" {
			fmt.Fprintf(os.Stderr, "session %d seed %d %s\n", n, sseed, src)
		}
		if *canonical {
			s.Weights = [5]uint8{}
			s.Mix = "canonical"
		}
		if n == 0 {
			st.FirstSessionSeed = sseed
		}
		st.LastSessionSeed = sseed
		r := runSession(s, false)
		if r.overBudget > 0 {
			overSessions = append(overSessions, sseed)
		}
		st.Sessions++
		st.SessionsBySource[src]++
		st.SessionsByMix[s.Mix]++
		st.Ops += len(s.Ops)
		st.OpsSkipped += len(s.Ops) - r.executed
		for _, op := range s.Ops {
			st.OpsByKind[op.Kind]++
			if op.Kind == "noise" {
				st.Probes["noise_op:"+op.Noise]++
			}
		}
		if s.ReuseSources {
			st.Probes["sessions_reusing_source_objects"]++
		}
		if s.NamedDocs {
			st.Probes["sessions_with_named_document_sources"]++
		}
		if len(s.Schemas) > 0 && s.Schemas[0].Name == "" {
			st.Probes["sessions_with_unnamed_schema_sources"]++
		}
		if len(s.Schemas) > 0 && strings.HasPrefix(s.Schemas[0].Text, "\ufeff") {
			st.Probes["sessions_with_bom_schema"]++
		}
		st.Observations += len(r.obs)
		// stats on visits
		eff := false
		var eh uint64 = 14695981039346656037
		for i, vs := range r.visits {
			for _, v := range vs {
				sn := siteFileLine(siteName(v.Site))
				st.VisitsBySite[sn]++
				st.VisitsByMode[modeName(v.Mode)]++
				if v.Effective {
					st.EffectiveBySite[sn]++
					eff = true
					eh = (eh ^ uint64(i)<<20 ^ uint64(v.Site)<<8 ^ uint64(v.Mode)) * fnvPrime64
					eh = (eh ^ v.Arg) * fnvPrime64
				}
			}
		}
		if eff {
			st.EffectiveSessions++
			eh = (eh ^ hashStr(s.Schemas[0].Text)) * fnvPrime64
			if len(s.Docs) > 0 {
				eh = (eh ^ hashStr(s.Docs[0])) * fnvPrime64
			}
			effHashes[eh] = true
		}
		if *evlog {
			st.Log = append(st.Log, sessionLog(s, r)...)
		}
		// in-session oracle
		seenKeys := map[string]bool{}
		for _, o := range r.obs {
			if seenKeys[o.Key] {
				st.Compared++
			}
			seenKeys[o.Key] = true
			if strings.HasPrefix(o.Key, "V|") && o.Rendering != "ok" {
				st.InvalidValidate++
			}
			if strings.HasPrefix(o.Key, "L|") && o.Rendering != "ok" {
				st.LoadErrors++
			}
			for _, l := range strings.Split(o.Rendering, "\n") {
				if i := strings.Index(l, " msg="); i >= 0 {
					rule := ruleOfLine(l)
					st.RulesSeen[rule]++
					m := l[i+5:]
					if j := strings.LastIndex(m, " loc=["); j >= 0 {
						m = m[:j]
					}
					t := rule + ": " + template(m)
					if !templates[t] {
						templates[t] = true
					}
					if strings.Contains(m, "Did you mean") {
						st.Probes["suggestion_message"]++
					}
				}
			}
		}
		w := checkObs(s, r.obs)
		var bad *Session
		if w != nil {
			bad = explicitForm(s, r)
		} else {
			// cross-session oracle: same texts seen in an earlier session
			for _, o := range r.obs {
				var si, di int
				if strings.HasPrefix(o.Key, "L|") {
					fmt.Sscanf(o.Key, "L|%d", &si)
				} else {
					fmt.Sscanf(o.Key[1:], "|%d|%d", &si, &di)
				}
				tk := hashStr(sessionTextKey(s, o.Key))
				h := hashStr(o.Rendering)
				if *canonical {
					st.CanonDigest[fmt.Sprintf("%016x", tk)] = h
					if *isoOut != "" && !isoSeen[tk] && len(isoKeys) < *isoCap {
						isoSeen[tk] = true
						k := isoKey{TK: fmt.Sprintf("%016x", tk), Kind: "V", SchemaName: s.Schemas[si].Name, Schema: s.Schemas[si].Text, Hash: h, Rendering: firstN(o.Rendering, 2000), Session: sseed, Source: src, Op: o.Op, ObsKey: o.Key, Index: n}
						if strings.HasPrefix(o.Key, "L|") {
							k.Kind = "L"
						} else {
							k.Doc = s.Docs[di]
							if strings.HasPrefix(o.Key, "V|") {
								k.DocName = docName(s, di)
							} else {
								k.Kind = "Q"
							}
						}
						k.Cuts, k.SameName, k.BuiltIn = cutsOf(s, si), s.SplitSameName, s.SplitBuiltIn
						isoKeys = append(isoKeys, k)
					}
				}
				g, ok := global[tk]
				if !ok {
					if len(global) < 400000 {
						global[tk] = gfirst{h, sseed, src}
					}
					continue
				}
				st.ComparedGlobal++
				if g.h != h && g.seed != sseed {
					// rebuild the earlier session and join the two
					a := genSession(g.seed, g.src)
					if *canonical {
						a.Weights = [5]uint8{}
					}
					ar := runSession(a, false)
					joined := joinSessions(explicitForm(a, ar), explicitForm(s, r))
					jr := runSession(joined, false)
					if jw := checkObs(joined, jr.obs); jw != nil {
						w, bad = jw, joined
					} else {
						// not reproducible by re-execution: still two runs with
						// the same texts and different results
						w = &Witness{Key: o.Key, Kind: "validate", RenderingLater: o.Rendering, FirstDiffLine: "cross-session digest mismatch, not reproduced on re-execution", Rule: "(unreproduced)"}
						bad = joined
					}
					break
				}
			}
		}
		st.DistinctKeys = len(global)
		if w != nil {
			v := reportC10(bad, w, *replayDir, *worker)
			v.Worker, v.Index, v.Canonical = *worker, n, *canonical
			st.Violations = append(st.Violations, v)
			if !knownSet[v.Class] {
				st.unknownViolations++
			}
		}
		if n < 3 || (n%997 == 0 && len(st.Samples) < 6) {
			st.Samples = append(st.Samples, sampleOf(explicitForm(s, r)))
		}
	}
	for t := range templates {
		st.Templates = append(st.Templates, t)
	}
	sort.Strings(st.Templates)
	st.DistinctTemplates = len(st.Templates)
	for h := range effHashes {
		st.EffectiveHashes = append(st.EffectiveHashes, h)
	}
	sort.Slice(st.EffectiveHashes, func(i, j int) bool { return st.EffectiveHashes[i] < st.EffectiveHashes[j] })
	st.Probes["panics_recovered"] = panicsSeen
	st.Probes["simulated_clock_readings"] = clockReads
	st.Probes["simulated_random_draws"] = randDraws
	st.Probes["operations_cut_off_at_yield_budget"] = opsOverBudget
	st.OverBudgetSessions = overSessions
	st.WallS = time.Since(t0).Seconds()
	if *isoOut != "" {
		writeJSON(*isoOut, isoKeys)
	}
	writeJSON(*out, st)
}

// ---------- isolated fresh-process oracle ----------

// isoKey is one (schema text[, document text]) key together with the result it
// got inside a session, i.e. after whatever that process had done before.
type isoKey struct {
	TK         string `json:"tk"`
	Kind       string `json:"kind"` // L | V
	SchemaName string `json:"schema_name"`
	Schema     string `json:"schema"`
	Doc        string `json:"doc,omitempty"`
	DocName    string `json:"doc_name,omitempty"`
	Cuts       []int  `json:"cuts,omitempty"`
	SameName   bool   `json:"split_same_name,omitempty"`
	BuiltIn    bool   `json:"split_builtin,omitempty"`
	Hash       uint64 `json:"hash"`
	Rendering  string `json:"rendering"`
	Session    uint64 `json:"session"`
	Source     string `json:"source"`
	Op         int    `json:"op"`
	ObsKey     string `json:"obs_key"`
	Index      int    `json:"session_index"` // n-th session of its worker
}

type isoMismatch struct {
	Key      isoKey `json:"key"`
	Isolated string `json:"isolated_rendering"`
	Rule     string `json:"rule"`
	// SelfInconsistent: the brand-new process that evaluated only this key got
	// two different answers from its two evaluations (second LoadSchema, or
	// LoadQuery after Validate on the same schema object): no history needed.
	SelfInconsistent bool `json:"self_inconsistent,omitempty"`
}

// isoResult is what a key evaluates to through each entry point the sessions
// use for it (the dictionary oracle treats them as one key: ParseQuery+Validate
// and LoadQuery must agree).
type isoResult struct {
	A string `json:"a"` // L: LoadSchema error; V: ParseQuery + validator.Validate
	B string `json:"b"` // V: gqlparser.LoadQuery; L: a second LoadSchema of the same text
}

// evalIsolated computes the result for a key in this process, now.
func evalIsolated(k *isoKey) (res isoResult) {
	verifsim.ArmOpBudget(4 * opYieldBudget)
	defer func() {
		if verifsim.DisarmOpBudget() {
			res = isoResult{A: overBudgetMark, B: overBudgetMark}
		}
	}()
	p := protect(func() {
		// (each evaluation gets a clock / random stream of its own, as two
		// operations of a session do)
		verifsim.BeginClock(verifsim.ClockCfg{Seed: 0xa11, Mode: verifsim.ClockSlow})
		sc, err := gqlparser.LoadSchema(buildSourcesB(k.SchemaName, k.Schema, k.Cuts, k.SameName, k.BuiltIn)...)
		if k.Kind == "L" {
			res.A = gen.RenderError(err)
			verifsim.BeginClock(verifsim.ClockCfg{Seed: 0xb22, Mode: verifsim.ClockJumpy})
			_, err2 := gqlparser.LoadSchema(buildSourcesB(k.SchemaName, k.Schema, k.Cuts, k.SameName, k.BuiltIn)...)
			res.B = gen.RenderError(err2)
			return
		}
		if err != nil {
			res.A = "schema does not load: " + gen.RenderError(err)
			res.B = res.A
			return
		}
		// twice through the SAME entry point, the second time on the schema
		// object the first evaluation has used
		if k.Kind == "Q" {
			_, errs := gqlparser.LoadQuery(sc, k.Doc)
			res.A = gen.RenderErrors(errs)
			verifsim.BeginClock(verifsim.ClockCfg{Seed: 0xb22, Mode: verifsim.ClockJumpy})
			_, errs2 := gqlparser.LoadQuery(sc, k.Doc)
			res.B = gen.RenderErrors(errs2)
			return
		}
		_, errs := validateSource(sc, &ast.Source{Name: k.DocName, Input: k.Doc})
		res.A = gen.RenderErrors(errs)
		verifsim.BeginClock(verifsim.ClockCfg{Seed: 0xb22, Mode: verifsim.ClockJumpy})
		_, errs2 := validateSource(sc, &ast.Source{Name: k.DocName, Input: k.Doc})
		res.B = gen.RenderErrors(errs2)
	})
	if p != "" {
		if res.A == "" {
			res.A = p
		}
		if res.B == "" {
			res.B = p
		}
	}
	return
}

// c10OneMain: evaluate exactly one key read from stdin; nothing else has
// happened in this process.
func c10OneMain(args []string) {
	var k isoKey
	b, err := io.ReadAll(os.Stdin)
	if err != nil || json.Unmarshal(b, &k) != nil {
		fatal(2, "c10-one: bad input")
	}
	out, _ := json.Marshal(evalIsolated(&k))
	os.Stdout.Write(out)
}

// c10IsolatedMain: for the keys of --in assigned to this part, spawn one fresh
// process per key and compare its result with the in-session one.
func c10IsolatedMain(args []string) {
	fs := flag.NewFlagSet("c10-isolated", flag.ExitOnError)
	in := fs.String("in", "", "keys file written by c10 --canonical --isolate-out")
	part := fs.Int("part", 0, "this part")
	parts := fs.Int("parts", 1, "number of parts")
	out := fs.String("out", "-", "result file")
	fs.Parse(args)
	var keys []isoKey
	readJSON(*in, &keys)
	compared := 0
	var bad []isoMismatch
	for i := range keys {
		if i%*parts != *part {
			continue
		}
		k := keys[i]
		if len(k.Rendering) >= 2000 {
			continue // truncated in the file; hash alone cannot be shown as a witness, compare by hash below
		}
		b, _ := json.Marshal(k)
		cmd := exec.Command(os.Args[0], "c10-one")
		cmd.Stdin = bytes.NewReader(b)
		// another heap and another process-level clock/randomness stream than
		// the session's process had
		cmd.Env = append(os.Environ(), fmt.Sprintf("VERIF_BALLAST=%d", 1+i%29), fmt.Sprintf("VERIF_PROCSEED=%d", 1+i%11))
		var so, se bytes.Buffer
		cmd.Stdout, cmd.Stderr = &so, &se
		if err := cmd.Run(); err != nil {
			fatal(2, "c10-isolated: child failed for key %s: %v\n%s", k.TK, err, se.String())
		}
		compared++
		var ir isoResult
		if json.Unmarshal(so.Bytes(), &ir) != nil {
			fatal(2, "c10-isolated: child output unreadable for key %s", k.TK)
		}
		if ir.A != ir.B && ir.A != overBudgetMark && ir.B != overBudgetMark {
			x, y := firstDiffLine(ir.A, ir.B)
			rule := ruleOfLine(x)
			if x == "" {
				rule = ruleOfLine(y)
			}
			bad = append(bad, isoMismatch{Key: k, Isolated: ir.B, Rule: rule, SelfInconsistent: true})
			continue
		}
		for _, alone := range []string{ir.A, ir.B} {
			if alone == overBudgetMark {
				break
			}
			if hashStr(alone) != k.Hash {
				x, y := firstDiffLine(k.Rendering, alone)
				rule := ruleOfLine(x)
				if x == "" {
					rule = ruleOfLine(y)
				}
				bad = append(bad, isoMismatch{Key: k, Isolated: alone, Rule: rule})
				break
			}
		}
	}
	writeJSON(*out, map[string]interface{}{"compared": compared, "mismatches": bad})
}

const fnvPrime64 = 0x100000001b3

func sampleOf(s *Session) *Session {
	c := *s
	// keep samples small in the evidence file
	c.Schemas = nil
	for _, t := range s.Schemas {
		x := t.Text
		if len(x) > 400 {
			x = x[:400] + "…"
		}
		c.Schemas = append(c.Schemas, NamedText{t.Name, x})
	}
	return &c
}

func sessionLog(s *Session, r sessionRun) []string {
	var out []string
	out = append(out, fmt.Sprintf("session %d %s mix=%s", s.Seed, s.Source, s.Mix))
	for i, vs := range r.visits {
		for _, v := range vs {
			out = append(out, fmt.Sprintf(" op%d %s visit %s nth=%d n=%d %s %d eff=%v", i, s.Ops[i], siteName(v.Site), v.Nth, v.N, modeName(v.Mode), v.Arg, v.Effective))
		}
	}
	for _, o := range r.obs {
		out = append(out, fmt.Sprintf(" obs op%d %s %016x", o.Op, o.Key, hashStr(o.Rendering)))
	}
	return out
}

// joinSessions concatenates two explicit sessions (pools re-indexed).
func joinSessions(a, b *Session) *Session {
	j := &Session{Seed: b.Seed, Source: "joined", Explicit: true}
	j.Schemas = append(append([]NamedText{}, a.Schemas...), b.Schemas...)
	for i := range a.Schemas {
		j.Splits = append(j.Splits, cutsOf(a, i))
	}
	for i := range b.Schemas {
		j.Splits = append(j.Splits, cutsOf(b, i))
	}
	j.SplitSameName = a.SplitSameName || b.SplitSameName
	j.SplitBuiltIn = a.SplitBuiltIn || b.SplitBuiltIn
	j.ReuseSources, j.NamedDocs = b.ReuseSources, b.NamedDocs
	j.Docs = append(append([]string{}, a.Docs...), b.Docs...)
	j.Ops = append(j.Ops, a.Ops...)
	for _, op := range b.Ops {
		op.S += len(a.Schemas)
		op.D += len(a.Docs)
		j.Ops = append(j.Ops, op)
	}
	return j
}

// ---------- reporting, minimisation, replay ----------

type c10Replay struct {
	Format     string     `json:"format"`
	Property   string     `json:"property"`
	Class      string     `json:"class"`
	Session    *Session   `json:"session"`
	Witness    *Witness   `json:"witness"`
	Site       string     `json:"site"`
	Replay     bool       `json:"replayable"`
	Confirmed  string     `json:"confirmed_on_real_runtime,omitempty"`
	HistoryKey *isoKey    `json:"history_key,omitempty"` // evaluated after the sessions and alone in a fresh process
	History    []*Session `json:"history,omitempty"`     // sessions executed before Session in the same process
	Note       string     `json:"note,omitempty"`
	// ProcSeeds: the witness is HistoryKey evaluated alone in two fresh
	// processes with these process-level clock/randomness seeds
	ProcSeeds []uint64 `json:"proc_seeds,omitempty"`
}

func classOf(s *Session, w *Witness) (string, string) {
	sites := map[string]bool{}
	for _, op := range s.Ops {
		for _, r := range op.Orders {
			sites[siteFileLine(r.Site)] = true
		}
		if op.Clock != nil {
			sites["simulated-clock-or-randomness"] = true
		}
	}
	var sl []string
	for k := range sites {
		sl = append(sl, k)
	}
	sort.Strings(sl)
	site := "history"
	if len(sl) > 0 {
		site = strings.Join(sl, "+")
	}
	return fmt.Sprintf("disagree:%s|rule=%s|site=%s", w.Kind, w.Rule, site), site
}

func reportC10(bad *Session, w *Witness, dir string, worker int) c10Violation {
	min, mw := minimiseC10(bad, w)
	class, site := classOf(min, mw)
	rp := c10Replay{Format: "verif-c10-replay/1", Property: "C10", Class: class, Session: min, Witness: mw, Site: site, Replay: mw.Rule != "(unreproduced)"}
	path := fmt.Sprintf("%s/C10-%d-w%d.json", dir, bad.Seed, worker)
	writeJSON(path, rp)
	return c10Violation{Class: class, Replay: path, Witness: mw, Site: site, Seed: bad.Seed}
}

func cloneSession(s *Session) *Session {
	c := *s
	c.Schemas = append([]NamedText{}, s.Schemas...)
	c.Docs = append([]string{}, s.Docs...)
	c.Splits = nil
	for _, sp := range s.Splits {
		c.Splits = append(c.Splits, append([]int{}, sp...))
	}
	c.Ops = make([]Op, len(s.Ops))
	for i, op := range s.Ops {
		op.Orders = append([]OrderRuleJ{}, op.Orders...)
		c.Ops[i] = op
	}
	return &c
}

func reproduces(s *Session, kind string) *Witness {
	r := runSession(s, false)
	w := checkObs(s, r.obs)
	if w != nil && w.Kind == kind {
		return w
	}
	return nil
}

func minimiseC10(s *Session, w *Witness) (*Session, *Witness) {
	if w.Rule == "(unreproduced)" {
		return s, w
	}
	cur := cloneSession(s)
	curW := w
	try := func(c *Session) bool {
		if nw := reproduces(c, w.Kind); nw != nil {
			cur, curW = c, nw
			return true
		}
		return false
	}
	deadline := time.Now().Add(20 * time.Second)
	// 1. drop operations
	for pass := 0; pass < 3; pass++ {
		changed := false
		for i := len(cur.Ops) - 1; i >= 0 && time.Now().Before(deadline); i-- {
			c := cloneSession(cur)
			c.Ops = append(c.Ops[:i], c.Ops[i+1:]...)
			if try(c) {
				changed = true
			}
		}
		if !changed {
			break
		}
	}
	// 2. drop order rules
	for i := range cur.Ops {
		for j := len(cur.Ops[i].Orders) - 1; j >= 0 && time.Now().Before(deadline); j-- {
			c := cloneSession(cur)
			c.Ops[i].Orders = append(c.Ops[i].Orders[:j], c.Ops[i].Orders[j+1:]...)
			try(c)
		}
	}
	// 3. shrink texts: whole definitions, then single lines
	shrinkTexts := func() {
		for si := range cur.Schemas {
			if len(cutsOf(cur, si)) > 0 {
				// try the unsplit schema first; offsets do not survive text shrinking
				c := cloneSession(cur)
				c.Splits[si] = nil
				if !try(c) {
					continue
				}
			}
			cur.Schemas[si].Text = shrinkText(cur.Schemas[si].Text, deadline, func(t string) bool {
				c := cloneSession(cur)
				c.Schemas[si].Text = t
				return try(c)
			})
		}
		for di := range cur.Docs {
			cur.Docs[di] = shrinkText(cur.Docs[di], deadline, func(t string) bool {
				c := cloneSession(cur)
				c.Docs[di] = t
				return try(c)
			})
		}
	}
	shrinkTexts()
	// 4. reduce each remaining permutation to a swap of two named keys
	for i := range cur.Ops {
		for j := range cur.Ops[i].Orders {
			if time.Now().After(deadline) {
				break
			}
			simplifyRule(&cur, &curW, i, j, w.Kind)
		}
	}
	shrinkTexts()
	// 5. drop unused pool entries (re-index)
	cur = compactPools(cur)
	if nw := reproduces(cur, w.Kind); nw != nil {
		curW = nw
	}
	return cur, curW
}

func simplifyRule(cur **Session, curW **Witness, i, j int, kind string) {
	s := *cur
	rule := s.Ops[i].Orders[j]
	if rule.Perm == "swapnamed" {
		return
	}
	// find the canonical keys of that visit
	r := runSessionCapture(s)
	var keys []string
	for _, v := range r.visits[i] {
		if siteName(v.Site) == rule.Site && v.Nth == rule.Nth {
			keys = v.Keys
		}
	}
	if len(keys) < 2 {
		return
	}
	tryRule := func(nr OrderRuleJ) bool {
		c := cloneSession(s)
		c.Ops[i].Orders[j] = nr
		if nw := reproduces(c, kind); nw != nil {
			*cur, *curW = c, nw
			return true
		}
		return false
	}
	// adjacent swaps first, then any pair (bounded)
	tries := 0
	for a := 0; a+1 < len(keys); a++ {
		tries++
		if tryRule(OrderRuleJ{Site: rule.Site, Nth: rule.Nth, Perm: "swapnamed", KeyA: keys[a], KeyB: keys[a+1], N: int32(len(keys))}) {
			return
		}
	}
	for a := 0; a < len(keys) && tries < 3000; a++ {
		for b := a + 2; b < len(keys) && tries < 3000; b++ {
			tries++
			if tryRule(OrderRuleJ{Site: rule.Site, Nth: rule.Nth, Perm: "swapnamed", KeyA: keys[a], KeyB: keys[b], N: int32(len(keys))}) {
				return
			}
		}
	}
}

func runSessionCapture(s *Session) sessionRun { return runSession(s, true) }

func compactPools(s *Session) *Session {
	c := cloneSession(s)
	usedS, usedD := map[int]int{}, map[int]int{}
	var ns []NamedText
	var nd []string
	var nsp [][]int
	for i, op := range c.Ops {
		if _, ok := usedS[op.S]; !ok {
			usedS[op.S] = len(ns)
			ns = append(ns, s.Schemas[op.S])
			nsp = append(nsp, cutsOf(s, op.S))
		}
		c.Ops[i].S = usedS[op.S]
		if op.Kind != "load" {
			if _, ok := usedD[op.D]; !ok {
				usedD[op.D] = len(nd)
				nd = append(nd, s.Docs[op.D])
			}
			c.Ops[i].D = usedD[op.D]
		}
	}
	if c.NamedDocs {
		// document names are derived from pool positions: keep the document pool as it is
		c.Schemas, c.Splits = ns, nsp
		c.Docs = append([]string{}, s.Docs...)
		for i, op := range s.Ops {
			if op.Kind != "load" {
				c.Ops[i].D = op.D
			}
		}
		return c
	}
	c.Schemas, c.Docs, c.Splits = ns, nd, nsp
	return c
}

// shrinkText removes top-level chunks, then single lines, while ok(text) holds.
func shrinkText(text string, deadline time.Time, ok func(string) bool) string {
	for _, splitter := range []func(string) []string{splitChunks, splitLines} {
		parts := splitter(text)
		if len(parts) > 400 {
			continue
		}
		for i := len(parts) - 1; i >= 0 && len(parts) > 1 && time.Now().Before(deadline); i-- {
			cand := strings.Join(append(append([]string{}, parts[:i]...), parts[i+1:]...), "")
			if ok(cand) {
				parts = append(parts[:i], parts[i+1:]...)
			}
		}
		text = strings.Join(parts, "")
	}
	return text
}

func splitLines(t string) []string {
	return strings.SplitAfter(t, "\n")
}

var defKeywords = []string{"type ", "interface ", "union ", "enum ", "input ", "scalar ", "directive ", "schema", "extend ", "query", "mutation", "subscription", "fragment ", "{", `"`}

// splitChunks cuts a GraphQL text into top-level definitions (heuristically:
// a line at brace depth 0 that starts with a definition keyword opens a chunk).
func splitChunks(t string) []string {
	lines := strings.SplitAfter(t, "\n")
	var chunks []string
	var cur strings.Builder
	depth := 0
	inBlock := false
	onlyPreamble := true // current chunk holds only descriptions/comments/blank lines
	for _, l := range lines {
		trim := strings.TrimSpace(l)
		starts := false
		if depth == 0 && !inBlock {
			for _, k := range defKeywords {
				if strings.HasPrefix(trim, k) {
					starts = true
				}
			}
		}
		if starts && !onlyPreamble {
			chunks = append(chunks, cur.String())
			cur.Reset()
			onlyPreamble = true
		}
		cur.WriteString(l)
		if trim != "" && !strings.HasPrefix(trim, "#") && !strings.HasPrefix(trim, `"`) && !inBlock {
			onlyPreamble = false
		}
		// track depth, ignoring strings and comments
		for i := 0; i < len(l); i++ {
			if strings.HasPrefix(l[i:], `"""`) {
				inBlock = !inBlock
				i += 2
				continue
			}
			if inBlock {
				continue
			}
			c := l[i]
			if c == '#' {
				break
			}
			if c == '"' {
				i++
				for i < len(l) && l[i] != '"' {
					if l[i] == '\\' {
						i++
					}
					i++
				}
				continue
			}
			switch c {
			case '{', '(', '[':
				depth++
			case '}', ')', ']':
				if depth > 0 {
					depth--
				}
			}
		}
	}
	if cur.Len() > 0 {
		chunks = append(chunks, cur.String())
	}
	return chunks
}

func c10ReplayMain(args []string) {
	fs := flag.NewFlagSet("c10-replay", flag.ExitOnError)
	out := fs.String("out", "", "write the outcome as JSON")
	fs.Parse(args)
	if fs.NArg() != 1 {
		fatal(2, "usage: sim c10-replay [-out f] <replay.json>")
	}
	var rp c10Replay
	readJSON(fs.Arg(0), &rp)
	if rp.Session == nil && len(rp.ProcSeeds) != 2 {
		fatal(2, "replay file has no session")
	}
	class, w := replayC10(&rp, true)
	res := map[string]interface{}{"reproduced": w != nil}
	if w != nil {
		res["class"] = class
		res["witness"] = w
		fmt.Printf("REPRODUCED class=%s\n  key=%s ops %d vs %d\n  %s\n", class, w.Key, w.OpFirst, w.OpLater, w.FirstDiffLine)
	} else {
		fmt.Println("NOT-REPRODUCED")
	}
	if *out != "" {
		writeJSON(*out, res)
	}
	if w != nil {
		os.Exit(1)
	}
}

// c10DigestMain: run given sessions repeatedly on this build (pristine or
// canonical) and print key → set of rendering hashes; used for the
// "fresh process" and translation comparisons.
func c10DigestMain(args []string) {
	fs := flag.NewFlagSet("c10-digest", flag.ExitOnError)
	seed := fs.Uint64("seed", 1, "VERIF_SEED")
	worker := fs.Int("worker", 0, "worker index whose sessions to re-run")
	n := fs.Int("sessions", 50, "number of sessions")
	reps := fs.Int("reps", 1, "in-process repetitions of each session")
	sources := fs.String("sources", "corpus,gen", "workload sources")
	out := fs.String("out", "-", "result file")
	skipFile := fs.String("skip-sessions", "", "JSON list of session seeds to skip (operations that exceed the yield budget on the instrumented build)")
	fs.Parse(args)
	srcs := strings.Split(*sources, ",")
	skip := map[uint64]bool{}
	if *skipFile != "" {
		var l []uint64
		readJSON(*skipFile, &l)
		for _, x := range l {
			skip[x] = true
		}
	}
	hung := false
	type entry struct {
		Hashes     []uint64 `json:"hashes"`
		Renderings []string `json:"renderings,omitempty"`
		Session    uint64   `json:"session"`
		Source     string   `json:"source"`
		Key        string   `json:"key"`
	}
	res := map[string]*entry{}
	wseed := gen.Mix(*seed, uint64(*worker)+1000)
	for i := 0; i < *n; i++ {
		sseed := gen.Mix(wseed, uint64(i))
		src := srcs[i%len(srcs)]
		if skip[sseed] || hung {
			continue
		}
		for rep := 0; rep < *reps && !hung; rep++ {
			s := genSession(sseed, src)
			s.Weights = [5]uint8{}
			// this build has no yield points to count: a wall-clock backstop. The
			// goroutine of a call that does not return cannot be stopped; the
			// child then finishes early with what it has.
			done := make(chan sessionRun, 1)
			go func() { done <- runSession(s, false) }()
			var r sessionRun
			select {
			case r = <-done:
			case <-time.After(30 * time.Second):
				hung = true
				continue
			}
			for _, o := range r.obs {
				k := fmt.Sprintf("%016x", hashStr(sessionTextKey(s, o.Key)))
				e := res[k]
				if e == nil {
					e = &entry{Session: sseed, Source: src, Key: o.Key}
					res[k] = e
				}
				h := hashStr(o.Rendering)
				found := false
				for _, x := range e.Hashes {
					if x == h {
						found = true
					}
				}
				if !found {
					e.Hashes = append(e.Hashes, h)
					if len(e.Renderings) < 3 {
						e.Renderings = append(e.Renderings, o.Rendering)
					}
				}
			}
		}
	}
	// keep renderings only where needed to keep the file small
	for _, e := range res {
		if len(e.Hashes) == 1 {
			e.Renderings = e.Renderings[:1]
			if len(e.Renderings[0]) > 300 {
				e.Renderings[0] = e.Renderings[0][:300]
			}
		}
	}
	writeJSON(*out, map[string]interface{}{"instrumented": instrumented(), "entries": res, "hung": hung})
	if hung {
		os.Exit(0) // a goroutine is still spinning inside the library
	}
}

// c10ConfirmMain: on an UNINSTRUMENTED build, run the replay's operations many
// times under the real runtime's map order and report the distinct renderings
// of the witness key ("confirmed on the real runtime").
func c10ConfirmMain(args []string) {
	fs := flag.NewFlagSet("c10-confirm", flag.ExitOnError)
	reps := fs.Int("reps", 500, "repetitions")
	out := fs.String("out", "-", "result file")
	fs.Parse(args)
	var rp c10Replay
	readJSON(fs.Arg(0), &rp)
	if rp.Session == nil || rp.Witness == nil {
		fatal(2, "bad replay file")
	}
	seen := map[string]int{}
	for i := 0; i < *reps; i++ {
		r := runSession(rp.Session, false)
		for _, o := range r.obs {
			if o.Key == rp.Witness.Key {
				seen[o.Rendering]++
			}
		}
	}
	var rs []string
	for k := range seen {
		rs = append(rs, k)
	}
	sort.Strings(rs)
	writeJSON(*out, map[string]interface{}{"distinct": len(rs), "renderings": rs, "instrumented": instrumented()})
}
