package main

import (
	"encoding/json"
	"flag"
	"fmt"
	"os"
	"os/exec"
	"runtime"
	"sort"
	"strconv"
	"strings"
	"sync"
	"time"

	"github.com/vektah/gqlparser/v2"
	"github.com/vektah/gqlparser/v2/ast"
	"github.com/vektah/gqlparser/v2/formatter"
	"github.com/vektah/gqlparser/v2/gqlerror"
	"github.com/vektah/gqlparser/v2/parser"
	"github.com/vektah/gqlparser/v2/validator"
	"github.com/vektah/gqlparser/v2/validator/rules"
	"github.com/vektah/gqlparser/v2/verifsim"
	"github.com/vektah/gqlparser/v2/zz_verif/gen"
)

// ---------- run model ----------

type C11Op struct {
	Kind      string `json:"kind"` // query | validate | fmtschema
	Doc       string `json:"doc,omitempty"`
	DocName   string `json:"doc_name,omitempty"` // validate: name of the source the document is parsed from
	Rules     string `json:"rules,omitempty"`    // default | nosuggest | subset
	RulesSeed uint64 `json:"rules_seed,omitempty"`
	VarsSeed  uint64 `json:"vars_seed,omitempty"`
	Coerce    bool   `json:"coerce,omitempty"`
	ArgMaps   bool   `json:"argmaps,omitempty"`
	FmtDoc    bool   `json:"fmtdoc,omitempty"`
	FmtOpts   int    `json:"fmt_opts,omitempty"`
}

type C11Task struct {
	Ops []C11Op `json:"ops"`
}

type FaultJ struct {
	Kind  string `json:"kind"` // abort | stall | wabort (the at_yield-th Write call of the task's writer panics)
	Task  int32  `json:"task"`
	Yield uint64 `json:"at_yield"`
}

type DecisionJ struct {
	Kind  string `json:"kind"` // switch | sample | exit
	Task  int32  `json:"task"`
	Yield uint64 `json:"yield"`
	To    int32  `json:"to"`
	Site  string `json:"site,omitempty"` // informational
}

type C11Run struct {
	Seed       uint64      `json:"run_seed"`
	Source     string      `json:"source"`
	Schema     NamedText   `json:"schema"`
	Tasks      []C11Task   `json:"tasks"`
	Strategy   string      `json:"strategy"` // sequential | random | pct | burst | explicit
	SwitchBits int         `json:"switch_bits,omitempty"`
	SiteMask   int         `json:"site_mask"`
	PCT        []uint64    `json:"pct_changes,omitempty"`
	BurstTask  int32       `json:"burst_task,omitempty"`
	BurstYield uint64      `json:"burst_yield,omitempty"`
	Faults     []FaultJ    `json:"faults,omitempty"`
	SampleBits int         `json:"sample_bits,omitempty"` // 0 = no sampling
	OrderMix   string      `json:"order_mix"`
	Weights    [5]uint8    `json:"order_weights"`
	Explicit   []DecisionJ `json:"schedule,omitempty"`
	NoSentinel bool        `json:"no_sentinel,omitempty"`
	// ConcurrentFirst: the simulated concurrent phase is the first use of the
	// library's validation/coercion/formatting code in this process (the solo
	// reference executions run afterwards). Cold runs execute in a fresh child
	// process, so lazily initialised package-level state is still cold when the
	// tasks meet it.
	ConcurrentFirst bool   `json:"concurrent_first,omitempty"`
	YieldBudget     uint64 `json:"yield_budget,omitempty"`
}

var stratIDs = map[string]int{"sequential": verifsim.StratSequential, "random": verifsim.StratRandom, "pct": verifsim.StratPCT, "burst": verifsim.StratBurst, "explicit": verifsim.StratExplicit}

// ---------- operations ----------

var allRules = []validator.Rule{
	rules.FieldsOnCorrectTypeRule, rules.FragmentsOnCompositeTypesRule, rules.KnownArgumentNamesRule, rules.KnownDirectivesRule,
	rules.KnownFragmentNamesRule, rules.KnownRootTypeRule, rules.KnownTypeNamesRule, rules.LoneAnonymousOperationRule,
	rules.MaxIntrospectionDepth, rules.NoFragmentCyclesRule, rules.NoUndefinedVariablesRule, rules.NoUnusedFragmentsRule,
	rules.NoUnusedVariablesRule, rules.OverlappingFieldsCanBeMergedRule, rules.PossibleFragmentSpreadsRule,
	rules.ProvidedRequiredArgumentsRule, rules.ScalarLeafsRule, rules.SingleFieldSubscriptionsRule, rules.UniqueArgumentNamesRule,
	rules.UniqueDirectivesPerLocationRule, rules.UniqueFragmentNamesRule, rules.UniqueInputFieldNamesRule,
	rules.UniqueOperationNamesRule, rules.UniqueVariableNamesRule, rules.ValuesOfCorrectTypeRule,
	rules.VariablesAreInputTypesRule, rules.VariablesInAllowedPositionRule,
}

func ruleList(op *C11Op) []validator.Rule {
	switch op.Rules {
	case "nosuggest":
		out := make([]validator.Rule, 0, len(allRules))
		for _, r := range allRules {
			switch r.Name {
			case rules.FieldsOnCorrectTypeRule.Name:
				r = rules.FieldsOnCorrectTypeRuleWithoutSuggestions
			case rules.KnownArgumentNamesRule.Name:
				r = rules.KnownArgumentNamesRuleWithoutSuggestions
			case rules.KnownTypeNamesRule.Name:
				r = rules.KnownTypeNamesRuleWithoutSuggestions
			case rules.ValuesOfCorrectTypeRule.Name:
				r = rules.ValuesOfCorrectTypeRuleWithoutSuggestions
			}
			out = append(out, r)
		}
		return out
	case "subset":
		r := gen.NewRng(op.RulesSeed)
		var out []validator.Rule
		for _, x := range allRules {
			if r.Chance(2, 3) {
				out = append(out, x)
			}
		}
		if len(out) == 0 {
			out = append(out, allRules[0])
		}
		return out
	}
	return nil // default: the global registry
}

type simWriter struct {
	b    strings.Builder
	task int
}

// writerAbortAt[task] = n: the n-th Write call of that task in the concurrent
// phase panics (a writer that fails hard, recovered by the caller). Each task
// touches only its own element.
var (
	writerAbortAt [verifsim.MaxTasks + 1]uint64
	writerCalls   [verifsim.MaxTasks + 1]uint64
)

func (w *simWriter) Write(p []byte) (int, error) {
	w.b.Write(p)
	if verifsim.Active() && w.task >= 0 && w.task <= verifsim.MaxTasks {
		writerCalls[w.task]++
		if writerAbortAt[w.task] != 0 && writerCalls[w.task] == writerAbortAt[w.task] {
			verifsim.AbortNow()
		}
	}
	verifsim.HarnessYield(-3) // other tasks may run while a formatter is mid-output; an abort here is a writer panic
	return len(p), nil
}

func fmtOptions(bits int) []formatter.FormatterOption {
	var o []formatter.FormatterOption
	if bits&1 != 0 {
		o = append(o, formatter.WithIndent("  "))
	}
	if bits&2 != 0 {
		o = append(o, formatter.WithComments())
	}
	if bits&4 != 0 {
		o = append(o, formatter.WithBuiltin())
	}
	if bits&8 != 0 {
		o = append(o, formatter.WithoutDescription())
	}
	if bits&16 != 0 {
		o = append(o, formatter.WithCompacted())
	}
	return o
}

func deepCopy(v interface{}) interface{} {
	switch x := v.(type) {
	case map[string]interface{}:
		if x == nil {
			return x
		}
		m := make(map[string]interface{}, len(x))
		for k, e := range x {
			m[k] = deepCopy(e)
		}
		return m
	case []interface{}:
		if x == nil {
			return x
		}
		l := make([]interface{}, len(x))
		for i, e := range x {
			l[i] = deepCopy(e)
		}
		return l
	}
	return v
}

type opCtx struct {
	schema  *ast.Schema
	vars    map[string]interface{} // prepared per op; deep-copied before use
	runSeed uint64
	task    int
	k       int
	weights [5]uint8
}

const abortedResult = "ABORTED"
const overBudgetResult = "OVER-YIELD-BUDGET"

// c11OpYieldBudget: see opYieldBudget in c10.go.
const c11OpYieldBudget = 6_000_000

// execOp runs one operation against schema and renders everything it returns.
func execOp(c *opCtx, op *C11Op) (result string) {
	verifsim.BeginOp(verifsim.OrderCfg{Seed: gen.Mix(gen.Mix(c.runSeed, uint64(c.task)+77), uint64(c.k)), Weights: c.weights})
	defer verifsim.EndOp()
	// simulated clock and randomness: one stream per (task, operation), the
	// same in the solo and in the concurrent execution
	cs := gen.Mix(gen.Mix(c.runSeed, uint64(c.task)+177), uint64(c.k))
	verifsim.BeginClock(verifsim.ClockCfg{Seed: cs, Mode: int32(cs>>7) & 3})
	var b strings.Builder
	verifsim.ArmOpBudget(c11OpYieldBudget)
	defer func() {
		r := recover()
		over := verifsim.DisarmOpBudget()
		if over {
			verifsim.TakeAborted()
			result = overBudgetResult
			return
		}
		if verifsim.TakeAborted() {
			// an injected abort fired somewhere in this operation; whether the
			// panic arrived here or was swallowed on the way (fmt recovers panics
			// of String/Error methods), the operation has no result
			result = abortedResult
			return
		}
		if r != nil {
			if _, ok := r.(verifsim.Abort); ok {
				result = abortedResult
				return
			}
			result = b.String() + "\npanic: " + fmt.Sprint(r)
		}
	}()
	switch op.Kind {
	case "helpers":
		renderHelpers(&b, c.schema, gen.NewRng(op.RulesSeed))
	case "fmtschema":
		w := &simWriter{task: c.task}
		formatter.NewFormatter(w, fmtOptions(op.FmtOpts)...).FormatSchema(c.schema)
		b.WriteString(w.b.String())
	case "query", "validate":
		var doc *ast.QueryDocument
		var errs gqlerror.List
		if op.Kind == "query" {
			doc, errs = gqlparser.LoadQuery(c.schema, op.Doc)
		} else {
			d, err := parser.ParseQuery(&ast.Source{Name: op.DocName, Input: op.Doc})
			if err != nil {
				b.WriteString("parse: " + gen.RenderError(err))
				return b.String()
			}
			errs = validator.Validate(c.schema, d, ruleList(op)...)
			if len(errs) == 0 {
				doc = d
			} else {
				b.WriteString("annotations: " + gen.RenderAnnotations(d) + "\n")
			}
		}
		b.WriteString("errors: " + gen.RenderErrors(errs) + "\n")
		if doc == nil {
			return b.String()
		}
		b.WriteString("annotations: " + gen.RenderAnnotations(doc) + "\n")
		vars := map[string]interface{}{}
		if c.vars != nil {
			vars = deepCopy(c.vars).(map[string]interface{})
		}
		coerced := vars
		if op.Coerce {
			for i, o := range doc.Operations {
				out, err := validator.VariableValues(c.schema, o, deepCopy(vars).(map[string]interface{}))
				b.WriteString("vars[" + strconv.Itoa(i) + "]: ")
				if err != nil {
					b.WriteString("error " + gen.RenderError(err))
				} else {
					gen.RenderValue(&b, out)
					if i == 0 {
						coerced = out
					} else {
						// the caller owns what it was handed: scribbling on it must
						// not show anywhere else
						gen.Scribble(out)
					}
				}
				b.WriteByte('\n')
			}
		}
		if op.ArgMaps {
			gen.RenderArgMaps(&b, doc, coerced)
			if op.FmtOpts&1 != 0 {
				// resolve everything a second time: results the caller scribbled on
				// (RenderArgMaps does after rendering) must come back intact
				gen.RenderArgMaps(&b, doc, coerced)
			}
		}
		if op.FmtDoc {
			w := &simWriter{task: c.task}
			formatter.NewFormatter(w, fmtOptions(op.FmtOpts)...).FormatQueryDocument(doc)
			b.WriteString("formatted:\n" + w.b.String())
		}
	}
	return b.String()
}

// renderHelpers performs the read-only lookups an executor makes on the shared
// schema while serving requests (kind predicates, possible types, implements,
// field/argument/enum-value lookups, type strings, default values).
func renderHelpers(b *strings.Builder, schema *ast.Schema, r *gen.Rng) {
	names := make([]string, 0, len(schema.Types))
	for n := range schema.Types {
		names = append(names, n)
	}
	sort.Strings(names)
	for i := 0; i < 6 && len(names) > 0; i++ {
		def := schema.Types[gen.Pick(r, names)]
		b.WriteString(def.Name + ":" + string(def.Kind))
		if def.IsLeafType() {
			b.WriteString(" leaf")
		}
		if def.IsAbstractType() {
			b.WriteString(" abstract")
		}
		if def.IsCompositeType() {
			b.WriteString(" composite")
		}
		if def.IsInputType() {
			b.WriteString(" input")
		}
		if def.OneOf("Int", "String", "Query") {
			b.WriteString(" oneof")
		}
		b.WriteString(" possible=[")
		for _, p := range schema.GetPossibleTypes(def) {
			b.WriteString(p.Name + " ")
		}
		b.WriteString("] implements=[")
		for _, p := range schema.GetImplements(def) {
			b.WriteString(p.Name + " ")
		}
		b.WriteString("]")
		if d := def.Directives.ForName("deprecated"); d != nil {
			b.WriteString(" deprecated")
		}
		b.WriteString(" dirs=" + strconv.Itoa(len(def.Directives.ForNames(gen.Pick(r, []string{"auth", "cache", "tagged", "oneOf"})))))
		if len(def.Fields) > 0 {
			f := gen.Pick(r, def.Fields)
			g := def.Fields.ForName(f.Name)
			b.WriteString(" " + g.Name + ":" + g.Type.String() + "/" + g.Type.Name())
			if other := gen.Pick(r, def.Fields); other.Type.IsCompatible(g.Type) {
				b.WriteString(" compat")
			}
			if g.DefaultValue != nil {
				v, err := g.DefaultValue.Value(nil)
				b.WriteString(" default=" + g.DefaultValue.String() + "=")
				gen.RenderValue(b, v)
				gen.Scribble(v)
				if err != nil {
					b.WriteString(" err")
				}
			}
			for _, a := range g.Arguments {
				ad := g.Arguments.ForName(a.Name)
				b.WriteString(" (" + ad.Name + ":" + ad.Type.String())
				if ad.DefaultValue != nil {
					v, _ := ad.DefaultValue.Value(nil)
					b.WriteString("=")
					gen.RenderValue(b, v)
					gen.Scribble(v)
				}
				b.WriteString(")")
			}
		}
		if len(def.EnumValues) > 0 {
			ev := gen.Pick(r, def.EnumValues)
			if def.EnumValues.ForName(ev.Name) != nil {
				b.WriteString(" ev=" + ev.Name)
			}
		}
		b.WriteByte('\n')
	}
	dnames := make([]string, 0, len(schema.Directives))
	for n := range schema.Directives {
		dnames = append(dnames, n)
	}
	sort.Strings(dnames)
	if len(dnames) > 0 {
		d := schema.Directives[gen.Pick(r, dnames)]
		b.WriteString("@" + d.Name)
		for _, a := range d.Arguments {
			if d.Arguments.ForName(a.Name) != nil {
				b.WriteString(" " + a.Name + ":" + a.Type.String())
			}
		}
		b.WriteByte('\n')
	}
	if schema.Query != nil {
		b.WriteString("query=" + schema.Query.Name + "\n")
	}
	if r.Chance(1, 4) && len(names) > 0 {
		b.WriteString(ast.Dump(schema.Types[gen.Pick(r, names)]))
	}
}

// ---------- one simulated run ----------

type C11Violation struct {
	Oracle string `json:"oracle"` // race | drift | isolation
	Class  string `json:"class"`
	Detail string `json:"detail"`
}

type runResult struct {
	Violations    []C11Violation `json:"violations"`
	Decisions     []DecisionJ    `json:"decisions"` // the schedule as executed
	Steps         uint64         `json:"steps"`
	Switches      uint64         `json:"switches"`
	Preempts      int            `json:"preemptions"` // switches at library yield points
	Aborts        int            `json:"aborts"`
	Stalls        int            `json:"stalls"`
	Samples       int            `json:"samples"`
	WriterSw      int            `json:"writer_switches"`
	OpsDone       int            `json:"ops_done"`
	OpsAborted    int            `json:"ops_aborted"`
	OpsOverBudget int            `json:"ops_over_yield_budget"`
	OpsCmp        int            `json:"ops_compared"`
	Snapshots     int            `json:"snapshots"`
	SchedHash     uint64         `json:"sched_hash"`
	PathHash      uint64         `json:"path_hash"`
	Overlaps      map[string]int `json:"overlaps,omitempty"`
	SitePairs     []uint64       `json:"site_pairs,omitempty"`
	OverBudget    bool           `json:"over_budget"`
	SchemaErr     string         `json:"schema_error,omitempty"`
	ResultHash    uint64         `json:"result_hash"`
	RaceText      string         `json:"-"`
	EvLog         []string       `json:"evlog,omitempty"`
}

type raceLog struct {
	path string
	off  int64
}

func (r *raceLog) readNew() string {
	if r == nil || r.path == "" {
		return ""
	}
	b, err := os.ReadFile(r.path)
	if err != nil || int64(len(b)) <= r.off {
		return ""
	}
	s := string(b[r.off:])
	r.off = int64(len(b))
	return s
}

// resultFunc: harness functions that only ever touch values a library call
// returned to the calling task (rendering them, scribbling on them).
func resultFunc(fn string) bool {
	for _, n := range []string{"gen.scribble", "gen.Scribble", "gen.ScribbleExcept", "gen.collectContainers", "gen.RenderValue", "gen.RenderArgMaps", "gen.argSelections", "gen.argDirectives", "main.renderHelpers"} {
		if strings.HasSuffix(fn, "/"+n) || strings.HasSuffix(fn, n) {
			return true
		}
	}
	return false
}

func libFrame(fn string) bool {
	return strings.HasPrefix(fn, "github.com/vektah/gqlparser/v2") && !strings.Contains(fn, "/verifsim") && !strings.Contains(fn, "/zz_verif")
}

// raceClasses parses race detector output into classes
// "race:<first library frame of access A>|<first library frame of access B>".
func raceClasses(text string) (classes []string, harnessOnly int) {
	reports := strings.Split(text, "WARNING: DATA RACE")
	for _, rep := range reports[1:] {
		lines := strings.Split(rep, "\n")
		var stacks [][]string
		var isWrite []bool
		var cur []string
		inAccess := false
		for _, l := range lines {
			t := strings.TrimSpace(l)
			isHdr := strings.HasPrefix(t, "Read at ") || strings.HasPrefix(t, "Write at ") || strings.HasPrefix(t, "Previous read at ") || strings.HasPrefix(t, "Previous write at ")
			if isHdr {
				if inAccess {
					stacks = append(stacks, cur)
				}
				cur = nil
				inAccess = true
				isWrite = append(isWrite, strings.HasPrefix(t, "Write at ") || strings.HasPrefix(t, "Previous write at "))
				continue
			}
			if strings.HasPrefix(t, "Goroutine ") || strings.HasPrefix(t, "====") {
				if inAccess {
					stacks = append(stacks, cur)
					inAccess = false
				}
				continue
			}
			if inAccess && t != "" && !strings.HasPrefix(l, "      ") && strings.HasPrefix(l, "  ") {
				fn := t
				if i := strings.LastIndex(fn, "("); i > 0 {
					fn = fn[:i]
				}
				cur = append(cur, fn)
			}
		}
		if inAccess {
			stacks = append(stacks, cur)
		}
		// Class = the first library frame of each WRITE access. (The stack the
		// detector restores for the other, earlier access can be imprecise, and a
		// read may come from anywhere - a client, the sentinel, a snapshot -
		// so only writers identify the defect.)
		var fr []string
		lib := false
		for i, st := range stacks {
			f := ""
			for _, fn := range st {
				if libFrame(fn) {
					f = strings.TrimPrefix(fn, "github.com/vektah/gqlparser/v2/")
					break
				}
			}
			if f != "" {
				lib = true
				if i < len(isWrite) && isWrite[i] {
					fr = append(fr, f)
				}
			}
		}
		if !lib {
			// No library frame. Tasks own every buffer the harness gives them, so
			// the only memory two tasks can both reach through the functions that
			// render and scribble on RETURNED values is memory the library handed
			// to both of them: a result shared between callers. Anything else
			// harness-only is a bug of mine.
			shared := len(stacks) >= 2
			var tops []string
			for _, st := range stacks {
				ok := false
				for _, fn := range st {
					if resultFunc(fn) {
						ok = true
						tops = append(tops, fn[strings.LastIndex(fn, "/")+1:])
						break
					}
					if !strings.HasPrefix(fn, "runtime.") && !strings.HasPrefix(fn, "reflect.") && !strings.HasPrefix(fn, "strconv.") && !strings.HasPrefix(fn, "strings.") {
						break
					}
				}
				if !ok {
					shared = false
				}
			}
			if !shared {
				harnessOnly++
				continue
			}
			sort.Strings(tops)
			classes = append(classes, "race:result-shared-between-callers@"+strings.Join(tops, "+"))
			continue
		}
		if len(fr) == 0 {
			fr = []string{"(writer outside library code)"}
		}
		sort.Strings(fr)
		if len(fr) == 2 && fr[0] == fr[1] {
			fr = fr[:1]
		}
		classes = append(classes, "race:write@"+strings.Join(fr, "+"))
	}
	return
}

func generalisePath(p string) string {
	var b strings.Builder
	for i := 0; i < len(p); i++ {
		if p[i] == '[' {
			j := strings.IndexByte(p[i:], ']')
			if j > 0 {
				// keep quoted keys that follow $.Types / map names out: generalise all
				b.WriteString("[*]")
				i += j
				continue
			}
		}
		b.WriteByte(p[i])
	}
	return b.String()
}

type preparedRun struct {
	spec    *C11Run
	vars    [][]map[string]interface{}
	nclient int
}

func loadSchemaText(t NamedText) (*ast.Schema, error) {
	return gqlparser.LoadSchema(&ast.Source{Name: t.Name, Input: t.Text})
}

func prepareVars(spec *C11Run) ([][]map[string]interface{}, error) {
	aux, err := loadSchemaText(spec.Schema)
	if err != nil {
		return nil, err
	}
	vars := make([][]map[string]interface{}, len(spec.Tasks))
	for t, task := range spec.Tasks {
		vars[t] = make([]map[string]interface{}, len(task.Ops))
		for k, op := range task.Ops {
			if op.Kind == "fmtschema" || op.Kind == "helpers" || op.Doc == "" {
				continue
			}
			d, err := parser.ParseQuery(&ast.Source{Input: op.Doc})
			if err != nil {
				continue
			}
			vars[t][k] = gen.GenVars(gen.NewRng(op.VarsSeed), aux, d)
		}
	}
	return vars, nil
}

var evlogOn bool
var noIsolation bool

func execRun(spec *C11Run, rl *raceLog) (res runResult) {
	res.Overlaps = map[string]int{}
	vars, err := prepareVars(spec)
	if err != nil {
		res.SchemaErr = gen.RenderError(err)
		return
	}
	schema, err := loadSchemaText(spec.Schema)
	if err != nil {
		res.SchemaErr = gen.RenderError(err)
		return
	}
	ref, _ := loadSchemaText(spec.Schema)
	n := len(spec.Tasks)
	// ---- solo executions: the sequential specification ----
	want := make([][]string, n)
	runSolo := func() {
		refFP := gen.TakeFingerprint(ref, false)
		for t := range spec.Tasks {
			want[t] = make([]string, len(spec.Tasks[t].Ops))
			for k := range spec.Tasks[t].Ops {
				want[t][k] = execOp(&opCtx{ref, vars[t][k], spec.Seed, t, k, spec.Weights}, &spec.Tasks[t].Ops[k])
			}
		}
		res.Snapshots++
		if fp := gen.TakeFingerprint(ref, false); fp.Hash != refFP.Hash {
			a := gen.TakeFingerprint(mustLoad(spec.Schema), true)
			b := gen.TakeFingerprint(ref, true)
			x, y := gen.FirstDiff(a, b)
			res.Violations = append(res.Violations, C11Violation{"drift", "drift:" + generalisePath(pathOf(x, y)), "sequential history: schema changed after the solo executions: " + x + "  ->  " + y})
		}
	}
	if !spec.ConcurrentFirst {
		runSolo()
	}
	// ---- concurrent execution under the simulator ----
	fp0 := gen.TakeFingerprint(schema, true)
	got := make([][]string, n)
	driftNotes := make([][]string, n+1)
	snaps := make([]int, n+1)
	for t := range spec.Tasks {
		got[t] = make([]string, len(spec.Tasks[t].Ops))
	}
	cfg := verifsim.Config{Seed: spec.Seed, NTasks: n + 1, First: int32(n), Strategy: stratIDs[spec.Strategy], SiteMask: uint8(spec.SiteMask) | verifsim.KindOp,
		PCTChanges: spec.PCT, BurstTask: spec.BurstTask, BurstYield: spec.BurstYield, Budget: spec.YieldBudget, LogCap: 1 << 14, SiteKinds: verifsim.SiteKinds}
	if spec.SwitchBits > 0 {
		cfg.SwitchMask = (uint64(1) << uint(spec.SwitchBits)) - 1
	}
	if spec.SampleBits > 0 {
		cfg.Sampling = true
		cfg.SampleMask = (uint64(1) << uint(spec.SampleBits)) - 1
	}
	writerAbortAt, writerCalls = [verifsim.MaxTasks + 1]uint64{}, [verifsim.MaxTasks + 1]uint64{}
	for _, f := range spec.Faults {
		k := int32(verifsim.FaultAbort)
		if f.Kind == "stall" {
			k = verifsim.FaultStall
		}
		if f.Kind == "wabort" {
			if f.Task >= 0 && int(f.Task) <= verifsim.MaxTasks {
				writerAbortAt[f.Task] = f.Yield
			}
			continue
		}
		cfg.Faults = append(cfg.Faults, verifsim.Fault{Kind: k, Task: f.Task, Yield: f.Yield})
	}
	if spec.Strategy == "explicit" {
		for _, d := range spec.Explicit {
			k := int32(verifsim.EvSwitch)
			switch d.Kind {
			case "sample":
				k = verifsim.EvSample
			case "exit":
				k = verifsim.EvExit
			}
			y := d.Yield
			if k == verifsim.EvExit {
				y = ^uint64(0)
			}
			cfg.Explicit = append(cfg.Explicit, verifsim.Decision{Kind: k, Task: d.Task, Yield: y, To: d.To})
		}
	}
	re0 := raceErrors()
	rl.readNew()
	verifsim.Setup(cfg)
	check := func(task int32, where string) {
		snaps[task]++
		if h := gen.TakeFingerprint(schema, false).Hash; h != fp0.Hash {
			now := gen.TakeFingerprint(schema, true)
			x, y := gen.FirstDiff(fp0, now)
			driftNotes[task] = append(driftNotes[task], where+": "+x+"  ->  "+y)
		}
	}
	verifsim.SetOnSample(func(task int32) { check(task, "mid-run sample") })
	var wg sync.WaitGroup
	end := make(chan struct{})
	aborted := make([][]bool, n)
	for t := 0; t < n; t++ {
		aborted[t] = make([]bool, len(spec.Tasks[t].Ops))
		wg.Add(1)
		go func(t int) {
			defer wg.Done()
			verifsim.TaskStart(int32(t))
			for k := range spec.Tasks[t].Ops {
				got[t][k] = execOp(&opCtx{schema, vars[t][k], spec.Seed, t, k, spec.Weights}, &spec.Tasks[t].Ops[k])
				if got[t][k] == abortedResult || got[t][k] == overBudgetResult {
					aborted[t][k] = true
					check(int32(t), "after aborted operation")
				}
				verifsim.OpDone()
			}
			verifsim.TaskExit(int32(t))
			<-end
		}(t)
	}
	// sentinel: reads every word of the schema graph before any client runs
	wg.Add(1)
	go func() {
		defer wg.Done()
		verifsim.TaskStart(int32(n))
		if !spec.NoSentinel {
			sentinelSink += gen.SentinelRead(schema)
		}
		verifsim.TaskExit(int32(n))
		<-end
	}()
	startWatchdog()
	verifsim.Run()
	close(end)
	wg.Wait()
	if n, site := verifsim.UnownedEvents(); n > 0 {
		fatal(2, "library code spawned %d goroutine(s) inside a simulated operation (at %s): the simulator does not own that schedule (DESIGN.md section 9); refusing to give a verdict, run seed %d", n, siteName(site), spec.Seed)
	}
	// ---- collect ----
	log, nlog := verifsim.Log()
	if nlog > len(log) {
		res.EvLog = append(res.EvLog, "log truncated")
	}
	res.Steps = verifsim.Steps()
	res.Switches = verifsim.Switches()
	res.OverBudget = verifsim.OverBudget()
	var sh uint64 = 14695981039346656037
	lastSite := int32(-1)
	for _, e := range log {
		switch e.Kind {
		case verifsim.EvSwitch:
			res.Decisions = append(res.Decisions, DecisionJ{"switch", e.Task, e.TaskYield, e.To, siteName(e.Site)})
			sh = (sh ^ uint64(e.Task)<<40 ^ uint64(e.To)<<32 ^ e.TaskYield) * fnvPrime64
			if e.Site >= 0 {
				res.Preempts++
				if lastSite >= 0 {
					res.SitePairs = append(res.SitePairs, uint64(lastSite)<<32|uint64(e.Site))
				}
				lastSite = e.Site
			} else if e.Site == -3 {
				res.WriterSw++
			}
		case verifsim.EvExit:
			res.Decisions = append(res.Decisions, DecisionJ{"exit", e.Task, e.TaskYield, e.To, ""})
			sh = (sh ^ 0xeeee ^ uint64(e.Task)<<40 ^ uint64(uint32(e.To))<<8) * fnvPrime64
		case verifsim.EvSample:
			res.Decisions = append(res.Decisions, DecisionJ{"sample", e.Task, e.TaskYield, -1, siteName(e.Site)})
			res.Samples++
		case verifsim.EvAbort:
			res.Aborts++
		case verifsim.EvStall:
			res.Stalls++
		}
		if evlogOn {
			res.EvLog = append(res.EvLog, fmt.Sprintf("ev kind=%d step=%d task=%d ty=%d to=%d site=%d", e.Kind, e.Step, e.Task, e.TaskYield, e.To, e.Site))
		}
	}
	res.SchedHash = sh
	var ph uint64
	for t := 0; t < n; t++ {
		ph = (ph ^ verifsim.TaskPathHash(t)) * fnvPrime64
		ph = (ph ^ verifsim.TaskYields(t)) * fnvPrime64
	}
	res.PathHash = ph
	verifsim.Teardown()
	for _, s := range snaps {
		res.Snapshots += s
	}
	// oracle 1: race detector
	if d := raceErrors() - re0; d > 0 {
		txt := rl.readNew()
		res.RaceText = txt
		classes, harnessOnly := raceClasses(txt)
		if harnessOnly > 0 {
			fatal(2, "race report without any library frame (harness/simulator bug), run seed %d:\n%s", spec.Seed, txt)
		}
		if len(classes) == 0 {
			classes = []string{"race:(unparsed)"}
		}
		seen := map[string]bool{}
		for _, c := range classes {
			if !seen[c] {
				seen[c] = true
				res.Violations = append(res.Violations, C11Violation{"race", c, txt})
			}
		}
	}
	// oracle 2: drift
	res.Snapshots++
	if fp := gen.TakeFingerprint(schema, true); fp.Hash != fp0.Hash {
		x, y := gen.FirstDiff(fp0, fp)
		res.Violations = append(res.Violations, C11Violation{"drift", "drift:" + generalisePath(pathOf(x, y)), "after the run: " + x + "  ->  " + y})
	} else {
		for t, notes := range driftNotes {
			for _, nt := range notes {
				res.Violations = append(res.Violations, C11Violation{"drift", "drift:transient", fmt.Sprintf("task %d %s", t, nt)})
			}
		}
	}
	if spec.ConcurrentFirst {
		runSolo()
	}
	// oracle 3: isolation of results
	var rh uint64
	for t := 0; t < n; t++ {
		docTainted := false
		_ = docTainted
		for k := range spec.Tasks[t].Ops {
			if aborted[t][k] || want[t][k] == overBudgetResult {
				// no result: cut off by an injected abort, or by the yield budget
				// in either execution (termination is C02's subject)
				res.OpsAborted++
				if want[t][k] == overBudgetResult || got[t][k] == overBudgetResult {
					res.OpsOverBudget++
				}
				continue
			}
			res.OpsDone++
			res.OpsCmp++
			rh = (rh ^ hashStr(got[t][k])) * fnvPrime64
			if got[t][k] != want[t][k] && !noIsolation {
				x, y := firstDiffLine(want[t][k], got[t][k])
				kind := spec.Tasks[t].Ops[k].Kind
				res.Violations = append(res.Violations, C11Violation{"isolation", "isolation:" + kind + ":" + template(firstN(x, 120)), fmt.Sprintf("task %d op %d (%s): solo %q  vs concurrent %q", t, k, kind, x, y)})
			}
		}
	}
	res.ResultHash = rh
	if evlogOn {
		for t := 0; t < n; t++ {
			for k := range got[t] {
				res.EvLog = append(res.EvLog, fmt.Sprintf("result t=%d k=%d %016x", t, k, hashStr(got[t][k])))
			}
		}
		res.EvLog = append(res.EvLog, fmt.Sprintf("race-classes %v", func() []string {
			var c []string
			for _, v := range res.Violations {
				c = append(c, v.Class)
			}
			return c
		}()))
	}
	return
}

var sentinelSink uint64

// execCold executes one run in a fresh child process (concurrent phase first).
func execCold(spec *C11Run, dir, racelog string, worker int) runResult {
	tmp := fmt.Sprintf("%s/cold-w%d-p%d.json", dir, worker, os.Getpid())
	tmpRes := tmp + ".res"
	writeJSON(tmp, c11Replay{Format: "verif-c11-replay/1", Property: "C11", Run: spec})
	args := []string{"c11-replay", "--quiet", "--out", tmpRes, "--racelog", racelog}
	if evlogOn {
		args = append(args, "--evlog")
	}
	if noIsolation {
		args = append(args, "--no-isolation")
	}
	cmd := exec.Command(os.Args[0], append(args, tmp)...)
	cmd.Env = os.Environ()
	var se strings.Builder
	cmd.Stderr = &se
	err := cmd.Run()
	var res runResult
	b, rerr := os.ReadFile(tmpRes)
	os.Remove(tmpRes)
	if rerr != nil || json.Unmarshal(b, &res) != nil {
		fatal(2, "cold run (seed %d) produced no result: %v\n%s", spec.Seed, err, se.String())
	}
	return res
}

func firstN(s string, n int) string {
	if len(s) > n {
		return s[:n]
	}
	return s
}

func pathOf(x, y string) string {
	l := x
	if l == "" || l == "<end>" {
		l = y
	}
	if i := strings.Index(l, " = "); i >= 0 {
		return l[:i]
	}
	return l
}

func mustLoad(t NamedText) *ast.Schema {
	s, err := loadSchemaText(t)
	if err != nil {
		panic(err)
	}
	return s
}

// onHang is installed by whoever executes runs in this process (the worker,
// the replay command): it receives the verdict below and does not return.
var onHang func(v C11Violation)

var watchdogOnce sync.Once

// startWatchdog starts the process-wide watchdog (once). It watches the
// heartbeat of library code (every yield point, simulated or not - the solo
// reference executions and the snapshots run outside the scheduler).
//
// Library code that sits in a sync primitive's acquire path while the
// heartbeat stands still for 6 s is blocked for good: the harness runs one
// goroutine of library code at a time and never parks a task inside a
// statement-level Lock()/Unlock() bracket. If an earlier operation of this
// process returned inside such a bracket (verifsim.LockLeaks), nobody else can
// hold that lock (the same holds when the blocked task itself has such a bracket
// open: it leaked the lock earlier in the same operation, or tries to take it
// twice): the library leaked it, and this call never returns - "every
// concurrent call returns exactly what the same call returns when run alone" is
// violated by not returning at all: a verdict. Without an observed leak the
// same situation is machinery trouble (exit 2) after 20 s, and so is a
// simulation that reaches no yield point for 20 s.
func startWatchdog() {
	watchdogOnce.Do(func() {
		go func() {
			last := verifsim.Heartbeat()
			stuck := 0
			for {
				time.Sleep(2 * time.Second)
				hb := verifsim.Heartbeat()
				if hb != last {
					stuck, last = 0, hb
					continue
				}
				stuck++
				if stuck < 3 {
					continue
				}
				fr, stack := blockedInLibrary()
				// (the blocked task may be the very one that leaked the lock, later in
				// the same operation: then its own bracket is still open)
				if fr != "" && (verifsim.LockLeaks() > 0 || verifsim.OpenBrackets() > 0) && onHang != nil && os.Getenv("VERIF_NO_LIVENESS") == "" {
					onHang(C11Violation{Class: "hang:lock-not-released@" + fr, Oracle: "liveness",
						Detail: fmt.Sprintf("a call has been blocked for %d s acquiring a sync primitive from library code; %d operation(s) of this process returned without releasing a lock they had taken, and the blocked task itself has %d Lock()/Unlock() bracket(s) open; the harness runs one goroutine of library code at a time and never parks a task inside such a bracket, so nobody else can hold the lock\n%s", 2*stuck, verifsim.LockLeaks(), verifsim.OpenBrackets(), stack)})
				}
				if stuck >= 10 {
					if fr != "" {
						fatal(2, "watchdog: library code has been blocked in a sync primitive for 20 s (%s) and no leaked lock was observed: not a verdict\n%s", fr, stack)
					}
					if verifsim.Active() {
						fatal(2, "watchdog: no yield reached for 20s (cur task %d)", verifsim.Cur())
					}
				}
			}
		}()
	})
}

// blockedInLibrary looks for a task goroutine that is waiting in a sync
// primitive called from library code; it returns the first library frame and
// that goroutine's stack.
func blockedInLibrary() (string, string) {
	buf := make([]byte, 1<<20)
	buf = buf[:runtime.Stack(buf, true)]
	for _, g := range strings.Split(string(buf), "\n\n") {
		lines := strings.Split(g, "\n")
		if len(lines) < 3 || !strings.HasPrefix(lines[0], "goroutine ") {
			continue
		}
		hdr := lines[0]
		// (only calls the harness itself is making: a goroutine the library keeps
		// for its own purposes may wait on a condition variable for ever)
		// Lock acquisition only. A goroutine in Cond.Wait or WaitGroup.Wait waits
		// for a PEER, and the peer may simply be parked by the simulator (a memo
		// whose second caller waits for the first one's result): that is the
		// simulator's inability to run two library goroutines at once, not a
		// defect - it ends as machinery trouble (exit 2), never as a verdict.
		lockWait := strings.Contains(hdr, "[sync.Mutex.Lock") || strings.Contains(hdr, "[sync.RWMutex.Lock") || strings.Contains(hdr, "[sync.RWMutex.RLock") || strings.Contains(hdr, "[semacquire")
		if !lockWait || !strings.Contains(g, "main.exec") {
			continue
		}
		for _, l := range lines[1:] {
			if strings.HasPrefix(l, "\t") {
				continue
			}
			fn := l
			if i := strings.LastIndex(fn, "("); i > 0 {
				fn = fn[:i]
			}
			if libFrame(fn) {
				return strings.TrimPrefix(fn, "github.com/vektah/gqlparser/v2/"), firstN(g, 3000)
			}
		}
	}
	return "", ""
}

// ---------- generation ----------

var c11Mixes = []mixPreset{
	{"canonical", [5]uint8{}},
	{"canonical", [5]uint8{}},
	{"canonical", [5]uint8{}},
	{"mixed", [5]uint8{2, 1, 1, 2, 2}},
	{"all-shuffle", [5]uint8{0, 0, 0, 0, 1}},
}

func genRun(seed uint64, source string) *C11Run {
	r := gen.NewRng(seed)
	run := &C11Run{Seed: seed, Source: source}
	var docs []string
	switch source {
	case "gen":
		run.Schema, docs = c11PoolGen(r.Fork(1))
	default:
		run.Schema, docs = c11PoolCorpus(r.Fork(1))
	}
	// tasks
	nt := []int{2, 2, 3, 3, 4, 4, 5, 6, 8, 12, 16, 24, 32}[r.Intn(13)]
	maxOps := 8
	if nt > 8 {
		maxOps = 3
	}
	// a small palette of formatter option sets per run, so that several tasks
	// format with the SAME options (a cache keyed by options is then shared)
	fmtPalette := []int{r.Intn(32), r.Intn(32), r.Intn(32)}
	for t := 0; t < nt; t++ {
		var task C11Task
		no := r.Range(1, maxOps)
		for k := 0; k < no; k++ {
			var op C11Op
			switch r.Weighted([]int{5, 4, 2, 2}) {
			case 3:
				op.Kind = "helpers"
				op.RulesSeed = r.U64()
			case 0:
				op.Kind = "query"
			case 1:
				op.Kind = "validate"
				op.Rules = []string{"default", "default", "nosuggest", "subset"}[r.Intn(4)]
				op.RulesSeed = r.U64()
				if r.Chance(1, 3) {
					op.DocName = fmt.Sprintf("request-%d-%d.graphql", t, k)
				}
			case 2:
				op.Kind = "fmtschema"
			}
			if op.Kind != "fmtschema" && op.Kind != "helpers" {
				op.Doc = gen.Pick(r, docs)
				op.VarsSeed = r.U64()
				op.Coerce = r.Chance(2, 3)
				op.ArgMaps = r.Chance(2, 3)
				op.FmtDoc = r.Chance(1, 3)
			}
			op.FmtOpts = fmtPalette[r.Intn(len(fmtPalette))]
			task.Ops = append(task.Ops, op)
		}
		run.Tasks = append(run.Tasks, task)
	}
	// schedule strategy (swarm)
	switch r.Weighted([]int{2, 5, 3, 2}) {
	case 0:
		run.Strategy = "sequential"
	case 1:
		run.Strategy = "random"
		run.SwitchBits = r.Range(3, 10)
	case 2:
		run.Strategy = "pct"
		d := r.Range(1, 4)
		for i := 0; i < d; i++ {
			run.PCT = append(run.PCT, uint64(r.Intn(20000*nt)))
		}
		sort.Slice(run.PCT, func(i, j int) bool { return run.PCT[i] < run.PCT[j] })
	case 3:
		run.Strategy = "burst"
		run.BurstTask = int32(r.Intn(nt))
		run.BurstYield = uint64(r.Range(1, 6000))
	}
	run.SiteMask = []int{1, 2, 3, 7 | 16, 7 | 16, 4, 16, 16}[r.Intn(8)]
	if run.SiteMask == 16 && run.Strategy == "random" {
		// preemption only around the library's own synchronisation: few sites,
		// so switch at most of them
		run.SwitchBits = r.Range(0, 2)
	}
	// faults: most operations should complete
	nf := r.Weighted([]int{5, 3, 2, 1})
	for i := 0; i < nf; i++ {
		f := FaultJ{Kind: "abort", Task: int32(r.Intn(nt)), Yield: uint64(r.Range(1, 8000))}
		if r.Chance(1, 3) {
			f.Kind = "stall"
		} else if r.Chance(1, 3) {
			f.Kind = "wabort"
			f.Yield = uint64(r.Range(1, 60))
		}
		run.Faults = append(run.Faults, f)
	}
	if r.Chance(1, 2) {
		run.SampleBits = r.Range(12, 16)
	}
	m := c11Mixes[r.Intn(len(c11Mixes))]
	run.OrderMix, run.Weights = m.name, m.w
	run.YieldBudget = 20_000_000
	return run
}

func c11PoolCorpus(r *gen.Rng) (NamedText, []string) {
	c := gen.Corpus
	// corpus schemas that are used by at least one case
	var usable []int
	for i, l := range c.BySchema {
		if len(l) > 0 {
			usable = append(usable, i)
		}
	}
	si := gen.Pick(r, usable)
	var docs []string
	nd := r.Range(2, 8)
	for i := 0; i < nd; i++ {
		if r.Chance(1, 10) {
			docs = append(docs, gen.Pick(r, c.Cases).Query)
		} else {
			docs = append(docs, c.Cases[gen.Pick(r, c.BySchema[si])].Query)
		}
	}
	return NamedText{fmt.Sprintf("schemas.yml[%d]", si), c.Schemas[si]}, docs
}

// ---------- worker ----------

type c11Found struct {
	Class  string `json:"class"`
	Oracle string `json:"oracle"`
	Detail string `json:"detail"`
	Replay string `json:"replay"`
	Seed   uint64 `json:"run_seed"`
	Worker int    `json:"worker"`
	Index  int    `json:"run_index"` // n-th run of its worker
	Cold   bool   `json:"cold"`      // executed in a fresh child process
}

type c11Stats struct {
	Worker         int            `json:"worker"`
	Race           bool           `json:"race_detector"`
	FirstRunSeed   uint64         `json:"first_run_seed"`
	LastRunSeed    uint64         `json:"last_run_seed"`
	Runs           int            `json:"runs"`
	RunsSkipped    int            `json:"runs_skipped_schema_error"`
	RunsBySource   map[string]int `json:"runs_by_source"`
	RunsByStrategy map[string]int `json:"runs_by_strategy"`
	RunsByMask     map[string]int `json:"runs_by_site_mask"`
	TasksHist      map[string]int `json:"tasks_per_run"`
	OpsByKind      map[string]int `json:"ops_by_kind"`
	Steps          uint64         `json:"steps"`
	Switches       uint64         `json:"switches"`
	Preemptions    int            `json:"preemptions"`
	WriterSwitches int            `json:"writer_switches"`
	Aborts         int            `json:"aborts_fired"`
	Stalls         int            `json:"stalls_fired"`
	FaultsPlanned  int            `json:"faults_planned"`
	Samples        int            `json:"samples"`
	Snapshots      int            `json:"snapshots"`
	OpsDone        int            `json:"ops_done"`
	OpsAborted     int            `json:"ops_aborted"`
	OpsOverBudget  int            `json:"ops_over_yield_budget"`
	OpsCompared    int            `json:"ops_compared"`
	OverBudget     int            `json:"runs_over_budget"`
	ColdRuns       int            `json:"cold_runs"`
	SchedHashes    []uint64       `json:"sched_hashes"`
	SitePairs      int            `json:"distinct_site_pairs"`
	SitePairList   []uint64       `json:"site_pairs,omitempty"`
	Probes         map[string]int `json:"probes"`
	WallS          float64        `json:"wall_s"`
	Violations     []c11Found     `json:"violations"`
	Samples_       []*C11Run      `json:"sample_runs,omitempty"`
	Log            []string       `json:"log,omitempty"`

	unknown int
}

type c11Replay struct {
	Format   string  `json:"format"`
	Property string  `json:"property"`
	Class    string  `json:"class"`
	Run      *C11Run `json:"run"`
	// History: runs executed before Run in the same process. Whether the race
	// detector can see a race may depend on what the process did before (a
	// sync.Map, for one, synchronises through a mutex until it has been promoted
	// to its lock-free read path), and so may lazily initialised package state.
	History []*C11Run      `json:"history,omitempty"`
	Witness []C11Violation `json:"witness"`
	Note    string         `json:"note,omitempty"`
}

func c11Main(args []string) {
	fs := flag.NewFlagSet("c11", flag.ExitOnError)
	seed := fs.Uint64("seed", 1, "VERIF_SEED")
	worker := fs.Int("worker", 0, "worker index")
	wall := fs.Duration("wall", 10*time.Second, "wall budget")
	maxRuns := fs.Int("runs", 0, "stop after this many runs (0 = wall only)")
	out := fs.String("out", "-", "result file")
	replayDir := fs.String("replays", ".", "directory for replay files")
	sources := fs.String("sources", "corpus,gen", "workload sources")
	known := fs.String("known", "", "known classes separated by ;;")
	racelog := fs.String("racelog", "", "GORACE log_path prefix (the file is <prefix>.<pid>)")
	evlog := fs.Bool("evlog", false, "record full event logs (determinism self-test)")
	coldEvery := fs.Int("cold-every", 4, "every n-th run executes in a fresh child process with the concurrent phase first (0 = never)")
	noIso := fs.Bool("no-isolation", false, "switch the isolation oracle off (the census found clock/randomness use in library code)")
	fs.Parse(args)
	if !instrumented() {
		fatal(2, "c11 needs an instrumented build")
	}
	noIsolation = *noIso
	evlogOn = *evlog
	knownSet := map[string]bool{}
	for _, k := range strings.Split(*known, ";;") {
		if k != "" {
			knownSet[k] = true
		}
	}
	var rl *raceLog
	if *racelog != "" {
		rl = &raceLog{path: fmt.Sprintf("%s.%d", *racelog, os.Getpid())}
	}
	srcs := strings.Split(*sources, ",")
	st := &c11Stats{Worker: *worker, Race: raceEnabled, RunsBySource: map[string]int{}, RunsByStrategy: map[string]int{}, RunsByMask: map[string]int{}, TasksHist: map[string]int{}, OpsByKind: map[string]int{}, Probes: map[string]int{}}
	sched := map[uint64]bool{}
	pairs := map[uint64]bool{}
	t0 := time.Now()
	wseed := gen.Mix(*seed, uint64(*worker)+5000)
	for n := 0; ; n++ {
		if *maxRuns > 0 && n >= *maxRuns {
			break
		}
		if *maxRuns == 0 && time.Since(t0) > *wall {
			break
		}
		if st.unknown > 0 || len(st.Violations) >= 10 {
			break
		}
		rseed := gen.Mix(wseed, uint64(n))
		src := srcs[n%len(srcs)]
		spec := genRun(rseed, src)
		if n == 0 {
			st.FirstRunSeed = rseed
		}
		st.LastRunSeed = rseed
		var res runResult
		onHang = func(v C11Violation) {
			// the run cannot be finished: record the verdict like any other, write
			// this worker's results as they stand, and end the process
			rp := c11Replay{Format: "verif-c11-replay/1", Property: "C11", Class: v.Class, Run: spec, Witness: []C11Violation{v}}
			path := fmt.Sprintf("%s/C11-%d-w%d-%d.json", *replayDir, rseed, *worker, len(st.Violations))
			writeJSON(path, rp)
			st.Violations = append(st.Violations, c11Found{v.Class, v.Oracle, firstN(v.Detail, 4000), path, rseed, *worker, n, spec.ConcurrentFirst})
			st.Runs++
			st.WallS = time.Since(t0).Seconds()
			writeJSON(*out, st)
			os.Exit(0)
		}
		if *coldEvery > 0 && n%*coldEvery == *coldEvery-1 {
			spec.ConcurrentFirst = true
			res = execCold(spec, *replayDir, *racelog, *worker)
			st.ColdRuns++
		} else {
			res = execRun(spec, rl)
		}
		if res.SchemaErr != "" {
			st.RunsSkipped++
			continue
		}
		st.Runs++
		st.RunsBySource[src]++
		st.RunsByStrategy[spec.Strategy]++
		st.RunsByMask[strconv.Itoa(spec.SiteMask)]++
		st.TasksHist[strconv.Itoa(len(spec.Tasks))]++
		for _, t := range spec.Tasks {
			for _, op := range t.Ops {
				st.OpsByKind[op.Kind]++
			}
		}
		st.Steps += res.Steps
		st.Switches += res.Switches
		st.Preemptions += res.Preempts
		st.WriterSwitches += res.WriterSw
		st.Aborts += res.Aborts
		st.Stalls += res.Stalls
		st.FaultsPlanned += len(spec.Faults)
		st.Samples += res.Samples
		st.Snapshots += res.Snapshots
		st.OpsDone += res.OpsDone
		st.OpsAborted += res.OpsAborted
		st.OpsOverBudget += res.OpsOverBudget
		st.OpsCompared += res.OpsCmp
		if res.OverBudget {
			st.OverBudget++
		}
		if res.Preempts > 0 {
			sched[res.SchedHash] = true
		}
		for _, p := range res.SitePairs {
			pairs[p] = true
		}
		if *evlog {
			st.Log = append(st.Log, fmt.Sprintf("run %d seed=%d strat=%s steps=%d switches=%d sched=%016x path=%016x result=%016x", n, rseed, spec.Strategy, res.Steps, res.Switches, res.SchedHash, res.PathHash, res.ResultHash))
			st.Log = append(st.Log, res.EvLog...)
		}
		for _, v := range res.Violations {
			// write the raw (seeded) replay; the driver minimises
			rp := c11Replay{Format: "verif-c11-replay/1", Property: "C11", Class: v.Class, Run: spec, Witness: []C11Violation{v}}
			path := fmt.Sprintf("%s/C11-%d-w%d-%d.json", *replayDir, rseed, *worker, len(st.Violations))
			writeJSON(path, rp)
			st.Violations = append(st.Violations, c11Found{v.Class, v.Oracle, firstN(v.Detail, 4000), path, rseed, *worker, n, spec.ConcurrentFirst})
			if !knownSet[v.Class] {
				st.unknown++
			}
		}
		if n < 2 || (n%499 == 0 && len(st.Samples_) < 5) {
			st.Samples_ = append(st.Samples_, sampleRun(spec, &res))
		}
	}
	for h := range sched {
		st.SchedHashes = append(st.SchedHashes, h)
	}
	sort.Slice(st.SchedHashes, func(i, j int) bool { return st.SchedHashes[i] < st.SchedHashes[j] })
	for p := range pairs {
		st.SitePairList = append(st.SitePairList, p)
	}
	sort.Slice(st.SitePairList, func(i, j int) bool { return st.SitePairList[i] < st.SitePairList[j] })
	st.SitePairs = len(pairs)
	for k, v := range gen.Probes() {
		st.Probes[k] = v
	}
	st.WallS = time.Since(t0).Seconds()
	writeJSON(*out, st)
}

func sampleRun(spec *C11Run, res *runResult) *C11Run {
	c := *spec
	if len(c.Schema.Text) > 300 {
		c.Schema.Text = c.Schema.Text[:300] + "…"
	}
	if len(c.Tasks) > 3 {
		c.Tasks = c.Tasks[:3]
	}
	d := res.Decisions
	if len(d) > 12 {
		d = d[:12]
	}
	c.Explicit = d
	return &c
}

// ---------- replay and minimisation ----------

func c11ReplayMain(args []string) {
	fs := flag.NewFlagSet("c11-replay", flag.ExitOnError)
	out := fs.String("out", "", "write the outcome as JSON")
	racelog := fs.String("racelog", "", "GORACE log_path prefix")
	quiet := fs.Bool("quiet", false, "no stdout")
	evl := fs.Bool("evlog", false, "record the full event log in the result")
	noIso := fs.Bool("no-isolation", false, "switch the isolation oracle off")
	fs.Parse(args)
	if fs.NArg() != 1 {
		fatal(2, "usage: sim c11-replay [-out f] <replay.json>")
	}
	evlogOn = *evl
	noIsolation = noIsolation || *noIso
	var rp c11Replay
	readJSON(fs.Arg(0), &rp)
	if rp.Run == nil {
		fatal(2, "replay file has no run")
	}
	var rl *raceLog
	if *racelog != "" {
		rl = &raceLog{path: fmt.Sprintf("%s.%d", *racelog, os.Getpid())}
	}
	onHang = func(v C11Violation) {
		res := runResult{Violations: []C11Violation{v}}
		if *out != "" {
			writeJSON(*out, res)
		}
		if !*quiet {
			fmt.Printf("REPRODUCED class=%s\n  %s\n", v.Class, firstN(v.Detail, 1500))
		}
		os.Exit(1)
	}
	var earlier []C11Violation
	for _, h := range rp.History {
		hr := execRun(h, rl)
		earlier = append(earlier, hr.Violations...)
	}
	res := execRun(rp.Run, rl)
	if res.SchemaErr != "" {
		fatal(2, "replay schema does not load on this tree: %s", res.SchemaErr)
	}
	// (the race detector reports a pair of stacks once per process: a race that
	// already showed in a history run counts)
	res.Violations = append(res.Violations, earlier...)
	if *out != "" {
		writeJSON(*out, res)
	}
	if !*quiet {
		for _, v := range res.Violations {
			fmt.Printf("REPRODUCED class=%s\n  %s\n", v.Class, firstN(v.Detail, 1500))
		}
		if len(res.Violations) == 0 {
			fmt.Println("NOT-REPRODUCED")
		}
	}
	if len(res.Violations) > 0 {
		os.Exit(1)
	}
}

// c11MinMain minimises a replay file; every candidate runs in a fresh process
// (the race detector reports a given pair of stacks only once per process).
func c11MinMain(args []string) {
	fs := flag.NewFlagSet("c11-min", flag.ExitOnError)
	out := fs.String("out", "", "minimised replay file")
	budget := fs.Duration("budget", 150*time.Second, "time budget")
	racelog := fs.String("racelog", "", "GORACE log_path prefix")
	fs.Parse(args)
	var rp c11Replay
	readJSON(fs.Arg(0), &rp)
	class := rp.Class
	deadline := time.Now().Add(*budget)
	tmp := *out + ".cand.json"
	tmpRes := *out + ".cand.res.json"
	tries := 0
	// A race verdict depends on ThreadSanitizer's shadow memory, which keeps a
	// few accesses per word and evicts pseudo-randomly: with many tasks touching
	// one word a real race can go unreported in one process. A candidate is
	// therefore accepted only if it reproduces in `need` consecutive fresh
	// processes, so that the published replay is a robust one.
	need := 1
	if strings.HasPrefix(class, "race:") {
		need = 2
	}
	attemptOnce := func(run *C11Run) (*runResult, bool) {
		tries++
		writeJSON(tmp, c11Replay{Format: rp.Format, Property: "C11", Class: class, Run: run})
		cmd := exec.Command(os.Args[0], "c11-replay", "--quiet", "--out", tmpRes, "--racelog", *racelog, tmp)
		cmd.Env = os.Environ()
		cmd.Run()
		var res runResult
		b, err := os.ReadFile(tmpRes)
		os.Remove(tmpRes)
		if err != nil || json.Unmarshal(b, &res) != nil {
			return nil, false
		}
		for _, v := range res.Violations {
			if v.Class == class {
				return &res, true
			}
		}
		return &res, false
	}
	attempt := func(run *C11Run) (*runResult, bool) {
		var res *runResult
		for i := 0; i < need; i++ {
			r, ok := attemptOnce(run)
			if !ok {
				return r, false
			}
			res = r
		}
		return res, true
	}
	cur := cloneRun(rp.Run)
	res, ok := attempt(cur)
	for i := 0; !ok && i < 4; i++ {
		res, ok = attempt(cur)
	}
	if !ok {
		fatal(3, "c11-min: the unminimised replay did not reproduce class %s", class)
	}
	curRes := res
	accept := func(c *C11Run) bool {
		if time.Now().After(deadline) {
			return false
		}
		if r, ok := attempt(c); ok {
			cur, curRes = c, r
			return true
		}
		return false
	}
	// 1. no preemption at all?
	{
		c := cloneRun(cur)
		c.Strategy, c.Explicit, c.PCT, c.SampleBits, c.SwitchBits = "sequential", nil, nil, 0, 0
		if !accept(c) {
			// 2. make the executed schedule explicit
			c = cloneRun(cur)
			c.Strategy, c.Explicit, c.PCT, c.SampleBits, c.SwitchBits = "explicit", curRes.Decisions, nil, 0, 0
			accept(c)
		}
	}
	// 3. drop faults
	for i := len(cur.Faults) - 1; i >= 0; i-- {
		c := cloneRun(cur)
		c.Faults = append(c.Faults[:i], c.Faults[i+1:]...)
		accept(c)
	}
	// 4. drop tasks (schedule entries of the task are dropped, others re-indexed)
	for t := len(cur.Tasks) - 1; t >= 0 && len(cur.Tasks) > 1; t-- {
		accept(dropTask(cur, t))
	}
	// 5. drop operations
	for t := range cur.Tasks {
		for k := len(cur.Tasks[t].Ops) - 1; k >= 0 && len(cur.Tasks[t].Ops) > 1; k-- {
			c := cloneRun(cur)
			c.Tasks[t].Ops = append(c.Tasks[t].Ops[:k], c.Tasks[t].Ops[k+1:]...)
			accept(c)
		}
	}
	// 6. simplify operations
	for t := range cur.Tasks {
		for k := range cur.Tasks[t].Ops {
			for _, f := range []func(*C11Op){func(o *C11Op) { o.FmtDoc = false }, func(o *C11Op) { o.ArgMaps = false }, func(o *C11Op) { o.Coerce = false }, func(o *C11Op) { o.FmtOpts = 0 }, func(o *C11Op) { o.Rules = "default" }} {
				c := cloneRun(cur)
				before := c.Tasks[t].Ops[k]
				f(&c.Tasks[t].Ops[k])
				if c.Tasks[t].Ops[k] != before {
					accept(c)
				}
			}
		}
	}
	// 7. drop schedule entries (switches and samples), newest first
	if cur.Strategy == "explicit" {
		for i := len(cur.Explicit) - 1; i >= 0 && time.Now().Before(deadline); i-- {
			if i >= len(cur.Explicit) {
				continue
			}
			if cur.Explicit[i].Kind == "exit" {
				continue
			}
			c := cloneRun(cur)
			c.Explicit = append(c.Explicit[:i], c.Explicit[i+1:]...)
			if accept(c) {
				// keep the schedule as actually executed
				cur.Explicit = curRes.Decisions
			}
		}
	}
	if cur.Weights != [5]uint8{} {
		c := cloneRun(cur)
		c.Weights, c.OrderMix = [5]uint8{}, "canonical"
		accept(c)
	}
	// 8. shrink texts
	for t := range cur.Tasks {
		for k := range cur.Tasks[t].Ops {
			if cur.Tasks[t].Ops[k].Doc == "" {
				continue
			}
			cur.Tasks[t].Ops[k].Doc = shrinkText(cur.Tasks[t].Ops[k].Doc, deadline, func(s string) bool {
				c := cloneRun(cur)
				c.Tasks[t].Ops[k].Doc = s
				return accept(c)
			})
		}
	}
	cur.Schema.Text = shrinkText(cur.Schema.Text, deadline, func(s string) bool {
		c := cloneRun(cur)
		c.Schema.Text = s
		return accept(c)
	})
	os.Remove(tmp)
	var wit []C11Violation
	for _, v := range curRes.Violations {
		if v.Class == class {
			v.Detail = firstN(v.Detail, 6000)
			wit = append(wit, v)
		}
	}
	writeJSON(*out, c11Replay{Format: rp.Format, Property: "C11", Class: class, Run: cur, Witness: wit, Note: fmt.Sprintf("minimised in %d candidate executions", tries)})
	fmt.Printf("minimised: %d tasks, %d schedule entries, %d faults, %d candidates\n", len(cur.Tasks), len(cur.Explicit), len(cur.Faults), tries)
}

func cloneRun(r *C11Run) *C11Run {
	c := *r
	c.Tasks = make([]C11Task, len(r.Tasks))
	for i, t := range r.Tasks {
		c.Tasks[i].Ops = append([]C11Op{}, t.Ops...)
	}
	c.Faults = append([]FaultJ{}, r.Faults...)
	c.Explicit = append([]DecisionJ{}, r.Explicit...)
	c.PCT = append([]uint64{}, r.PCT...)
	return &c
}

func dropTask(r *C11Run, t int) *C11Run {
	c := cloneRun(r)
	c.Tasks = append(c.Tasks[:t], c.Tasks[t+1:]...)
	re := func(x int32) (int32, bool) {
		switch {
		case int(x) == t:
			return 0, false
		case int(x) > t:
			return x - 1, true
		}
		return x, true
	}
	var fl []FaultJ
	for _, f := range c.Faults {
		if nt, ok := re(f.Task); ok {
			f.Task = nt
			fl = append(fl, f)
		}
	}
	c.Faults = fl
	var ds []DecisionJ
	for _, d := range c.Explicit {
		nt, ok := re(d.Task)
		if !ok {
			continue
		}
		d.Task = nt
		if d.Kind != "sample" {
			to, ok := re(d.To)
			if !ok {
				continue
			}
			d.To = to
		}
		ds = append(ds, d)
	}
	c.Explicit = ds
	if int(c.BurstTask) >= len(c.Tasks) {
		c.BurstTask = 0
	}
	return c
}

// c11EscalateMain: a violation that a worker saw in its n-th run but that does
// not reproduce from that run alone in a fresh process. The worker's runs 0..n
// (cold runs left out: they ran in children of their own) are re-executed in
// one fresh process; if the class shows again the history is reduced by delta
// debugging over whole runs and published with the run.
func c11EscalateMain(args []string) {
	fs := flag.NewFlagSet("c11-escalate", flag.ExitOnError)
	seed := fs.Uint64("seed", 1, "VERIF_SEED")
	worker := fs.Int("worker", 0, "worker")
	index := fs.Int("index", 0, "index of the run that showed the violation")
	sources := fs.String("sources", "corpus,gen", "workload sources")
	coldEvery := fs.Int("cold-every", 4, "as in the worker")
	class := fs.String("class", "", "violation class to look for")
	racelog := fs.String("racelog", "", "GORACE log_path prefix")
	out := fs.String("out", "", "replay file to write")
	budget := fs.Duration("budget", 120*time.Second, "budget")
	fs.Parse(args)
	srcs := strings.Split(*sources, ",")
	wseed := gen.Mix(*seed, uint64(*worker)+5000)
	var runs []*C11Run
	for n := 0; n <= *index; n++ {
		if *coldEvery > 0 && n%*coldEvery == *coldEvery-1 && n != *index {
			continue
		}
		runs = append(runs, genRun(gen.Mix(wseed, uint64(n)), srcs[n%len(srcs)]))
	}
	tmp := *out + ".cand.json"
	tries := 0
	try := func(rs []*C11Run) bool {
		need := 1
		if strings.HasPrefix(*class, "race:") {
			need = 2
		}
		for k := 0; k < need; k++ {
			tries++
			writeJSON(tmp, c11Replay{Format: "verif-c11-replay/2", Property: "C11", Class: *class, Run: rs[len(rs)-1], History: rs[:len(rs)-1]})
			cmd := exec.Command(os.Args[0], "c11-replay", "--racelog", *racelog, tmp)
			cmd.Env = os.Environ()
			o, _ := cmd.CombinedOutput()
			if !strings.Contains(string(o), "REPRODUCED class="+*class+"\n") {
				return false
			}
		}
		return true
	}
	ok := try(runs)
	for i := 0; !ok && i < 2; i++ {
		ok = try(runs)
	}
	if !ok {
		os.Remove(tmp)
		fatal(3, "the worker's runs 0..%d do not reproduce class %s in a fresh process", *index, *class)
	}
	deadline := time.Now().Add(*budget)
	for chunk := (len(runs) + 1) / 2; chunk >= 1; chunk /= 2 {
		for i := 0; i < len(runs)-1 && time.Now().Before(deadline); {
			j := i + chunk
			if j > len(runs)-1 {
				j = len(runs) - 1 // the last run stays
			}
			if j <= i {
				break
			}
			cand := append(append([]*C11Run{}, runs[:i]...), runs[j:]...)
			if try(cand) {
				runs = cand
			} else {
				i += chunk
			}
		}
		if chunk == 1 {
			break
		}
	}
	os.Remove(tmp)
	writeJSON(*out, c11Replay{Format: "verif-c11-replay/2", Property: "C11", Class: *class, Run: runs[len(runs)-1], History: runs[:len(runs)-1],
		Note: fmt.Sprintf("multi-run witness: %d run(s) executed in one process before the run that shows the violation; reduced from the worker's %d runs in %d fresh-process candidate executions", len(runs)-1, *index+1, tries)})
	fmt.Printf("escalated witness: class=%s runs=%d candidates=%d\n", *class, len(runs), tries)
}
