//go:build !race

package main

const raceEnabled = false

func raceErrors() int { return 0 }
