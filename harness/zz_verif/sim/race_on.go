//go:build race

package main

import "runtime"

const raceEnabled = true

func raceErrors() int { return runtime.RaceErrors() }
