package main

import "github.com/vektah/gqlparser/v2/zz_verif/gen"

func buildPoolsGen(r *gen.Rng, s *Session) { buildPoolsCorpus(r, s) }

func c11PoolGen(r *gen.Rng) (NamedText, []string) { return c11PoolCorpus(r) }
