package main

import (
	"fmt"

	"github.com/vektah/gqlparser/v2/zz_verif/gen"
)

// buildPoolsGen fills a C10 session's pools from the typed generator: the valid
// schema, up to two faulty variants of it (LoadSchema error determinism), and
// documents that are valid by construction or carry 1-3 injected faults.
func buildPoolsGen(r *gen.Rng, s *Session) {
	nFaulty := r.Weighted([]int{3, 3, 1})
	nVar := r.Weighted([]int{3, 2, 1})
	p := gen.GenPoolFor(r, nFaulty, nVar, r.Range(1, 6), 7)
	s.Schemas = append(s.Schemas, NamedText{"gen.graphql", p.Schema})
	for i, v := range p.Variants {
		s.Schemas = append(s.Schemas, NamedText{fmt.Sprintf("gen-variant%d.graphql", i), v})
	}
	for i, f := range p.FaultySchema {
		s.Schemas = append(s.Schemas, NamedText{fmt.Sprintf("gen-faulty%d.graphql", i), f})
		if len(p.FaultyCuts[i]) > 0 && r.Chance(1, 3) {
			// the faulty variant arrives in several files, each starting with a
			// faulty definition, all under one name
			for len(s.Splits) < len(s.Schemas) {
				s.Splits = append(s.Splits, nil)
			}
			s.Splits[len(s.Schemas)-1] = p.FaultyCuts[i]
			s.SplitSameName = true
		}
	}
	s.Docs = p.Docs
	if len(p.DirCuts) == len(s.Schemas) && len(p.DirCuts) > 0 {
		// every schema of the pool arrives as a BuiltIn prelude of directive
		// definitions plus the rest, the way code generators hand their own
		// directives in
		s.Splits = nil
		for _, c := range p.DirCuts {
			if c > 0 {
				s.Splits = append(s.Splits, []int{c})
			} else {
				s.Splits = append(s.Splits, nil)
			}
		}
		s.SplitBuiltIn = true
		s.SplitSameName = false
	}
}

// c11PoolGen: one generated schema that loads, and documents over it, most of
// them valid (coercion, argument maps and formatting need validated documents).
func c11PoolGen(r *gen.Rng) (NamedText, []string) {
	p := gen.GenPoolFor(r, 0, 0, r.Range(2, 8), 3)
	return NamedText{"gen.graphql", p.Schema}, p.Docs
}
