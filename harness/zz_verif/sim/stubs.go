package main

import "github.com/vektah/gqlparser/v2/zz_verif/gen"

func buildPoolsGen(r *gen.Rng, s *Session) { buildPoolsCorpus(r, s) }
func c11Main(args []string)               {}
func c11ReplayMain(args []string)         {}
