package main

import (
	"bytes"
	"encoding/json"
	"flag"
	"fmt"
	"os"
	"os/exec"
	"sort"
	"strings"
	"time"

	"github.com/vektah/gqlparser/v2/zz_verif/gen"
)

// A C10 replay is a list of sessions executed in order in ONE process (History
// then Session) and an oracle over everything they observed:
//
//   - the dictionary oracle: the same (schema text[, document text]) must get
//     the same rendering every time it is observed, in whichever session;
//   - optionally an isolated key: after the sessions, the key is evaluated
//     once more in this process and once alone in a brand-new process; the two
//     must agree ("in the same process, in a fresh process").
//
// State that survives between calls (package-level caches keyed by names or
// texts) makes a result depend on what the process did before; the sessions
// before the one that shows the difference are then part of the witness.

// sessionTextKey maps an observation key of a session (L|i, V|i|j, Q|i|j) to
// the texts it stands for; identical texts in different pool slots or sessions
// are the same key. The name of the source is part of the key (errors carry
// the file name).
func sessionTextKey(s *Session, obsKey string) string {
	var si, di int
	sk := func(i int) string {
		return schemaKeyText(s.Schemas[i].Name, s.Schemas[i].Text, cutsOf(s, i), s.SplitSameName, s.SplitBuiltIn)
	}
	switch {
	case strings.HasPrefix(obsKey, "L|"):
		fmt.Sscanf(obsKey, "L|%d", &si)
		return "L\x00" + sk(si)
	case strings.HasPrefix(obsKey, "Q|"):
		fmt.Sscanf(obsKey, "Q|%d|%d", &si, &di)
		return "Q\x00" + sk(si) + "\x00\x00" + s.Docs[di]
	}
	fmt.Sscanf(obsKey, "V|%d|%d", &si, &di)
	return "V\x00" + sk(si) + "\x00" + docName(s, di) + "\x00" + s.Docs[di]
}

// schemaKeyText: the schema half of a key: name, text and how the text is cut
// into sources (positions and file names in errors depend on it).
func schemaKeyText(name, text string, cuts []int, sameName, builtIn bool) string {
	k := name + "\x00" + text
	if len(cuts) > 0 {
		k += fmt.Sprintf("\x00cuts=%v same=%v builtin=%v", cuts, sameName, builtIn)
	}
	return k
}

func dropInapplicableRules(s *Session, verbose bool) {
	if !instrumented() {
		return
	}
	// an order rule naming a map-range site that this tree does not have is
	// inapplicable (the iteration it perturbed is gone): it is dropped, and the
	// rest of the replay decides
	for i, op := range s.Ops {
		var keep []OrderRuleJ
		for _, r := range op.Orders {
			if siteID(r.Site) < 0 {
				if verbose {
					fmt.Printf("note: map-range site %s does not exist in this tree; its order rule is inapplicable and skipped\n", r.Site)
				}
				continue
			}
			keep = append(keep, r)
		}
		s.Ops[i].Orders = keep
	}
}

func evalInChild(k *isoKey) isoResult { return evalInChildProc(k, "") }

// evalInChildProc evaluates the key alone in a fresh process whose
// process-level clock/randomness stream derives from procSeed ("" = inherit).
func evalInChildProc(k *isoKey, procSeed string) isoResult {
	b, _ := json.Marshal(k)
	cmd := exec.Command(os.Args[0], "c10-one")
	if procSeed != "" {
		cmd.Env = append(os.Environ(), "VERIF_PROCSEED="+procSeed)
	}
	cmd.Stdin = bytes.NewReader(b)
	var so, se bytes.Buffer
	cmd.Stdout, cmd.Stderr = &so, &se
	if err := cmd.Run(); err != nil {
		fatal(2, "isolated evaluation failed: %v\n%s", err, se.String())
	}
	var ir isoResult
	if json.Unmarshal(so.Bytes(), &ir) != nil {
		fatal(2, "isolated evaluation: unreadable child output")
	}
	return ir
}

// runSessionsOracle executes the sessions in order and applies the dictionary
// oracle across all of them; then the isolated key, if any.
func runSessionsOracle(sessions []*Session, key *isoKey) (string, *Witness) {
	type first struct {
		r    string
		sess int
		op   int
	}
	dict := map[string]first{}
	sites := map[string]bool{}
	// observations of the isolated key made inside the sessions (on whatever
	// schema and document objects the sessions had at that point)
	var keyText string
	type keyObs struct {
		r    string
		sess int
		op   int
	}
	var keyObsd []keyObs
	if key != nil {
		keyText = key.Kind + "\x00" + schemaKeyText(key.SchemaName, key.Schema, key.Cuts, key.SameName, key.BuiltIn)
		if key.Kind != "L" {
			keyText += "\x00" + key.DocName + "\x00" + key.Doc
		}
	}
	clock0 := clockReads + randDraws
	for si, s := range sessions {
		for _, op := range s.Ops {
			for _, r := range op.Orders {
				sites[siteFileLine(r.Site)] = true
			}
		}
		r := runSession(s, false)
		if clockReads+randDraws > clock0 {
			// (only when the library really read the clock or drew a number: a
			// stream that is installed but never used explains nothing)
			sites["simulated-clock-or-randomness"] = true
		}
		for _, o := range r.obs {
			tk := sessionTextKey(s, o.Key)
			if key != nil && tk == keyText {
				keyObsd = append(keyObsd, keyObs{o.Rendering, si, o.Op})
			}
			f, ok := dict[tk]
			if !ok {
				dict[tk] = first{o.Rendering, si, o.Op}
				continue
			}
			if f.r != o.Rendering {
				kind := "validate"
				if strings.HasPrefix(o.Key, "L|") {
					kind = "load"
				}
				x, y := firstDiffLine(f.r, o.Rendering)
				rule := ruleOfLine(x)
				if x == "" {
					rule = ruleOfLine(y)
				}
				var sl []string
				for k := range sites {
					sl = append(sl, k)
				}
				sort.Strings(sl)
				site := "history"
				if len(sl) > 0 {
					site = strings.Join(sl, "+")
				}
				w := &Witness{Key: o.Key, Kind: kind, OpFirst: f.op, OpLater: o.Op, RenderingFirst: f.r, RenderingLater: o.Rendering, FirstDiffLine: x + "  <>  " + y, Rule: rule,
					SessionFirst: f.sess, SessionLater: si}
				return fmt.Sprintf("disagree:%s|rule=%s|site=%s", kind, rule, site), w
			}
		}
	}
	if key != nil {
		a := evalInChild(key)
		for _, ko := range keyObsd {
			if a.A != overBudgetMark && ko.r != a.A {
				x, y := firstDiffLine(a.A, ko.r)
				rule := ruleOfLine(x)
				if x == "" {
					rule = ruleOfLine(y)
				}
				w := &Witness{Key: key.ObsKey, Kind: "history", RenderingFirst: a.A, RenderingLater: ko.r, Rule: rule, OpLater: ko.op, SessionLater: ko.sess,
					FirstDiffLine: x + "  <>  " + y + "   (alone in a fresh process  <>  as observed at that operation of these sessions)"}
				return "disagree-history|rule=" + rule, w
			}
		}
		h := evalIsolated(key)
		here, alone := h.A, a.A
		if h.A == a.A && h.B != a.B {
			here, alone = h.B, a.B
		}
		if here != alone && here != overBudgetMark && alone != overBudgetMark {
			x, y := firstDiffLine(alone, here)
			rule := ruleOfLine(x)
			if x == "" {
				rule = ruleOfLine(y)
			}
			w := &Witness{Key: key.ObsKey, Kind: "history", RenderingFirst: alone, RenderingLater: here, Rule: rule,
				FirstDiffLine: x + "  <>  " + y + "   (alone in a fresh process  <>  in the process that ran these sessions first)"}
			return "disagree-history|rule=" + rule, w
		}
	}
	return "", nil
}

func replaySessions(rp *c10Replay) []*Session {
	var all []*Session
	for _, h := range rp.History {
		all = append(all, h)
	}
	return append(all, rp.Session)
}

// procSeedOracle: the key alone in two fresh processes that differ in nothing
// but the seed of their process-level clock/randomness stream.
func procSeedOracle(key *isoKey, a, b uint64) (string, *Witness) {
	ra, rb := evalInChildProc(key, fmt.Sprint(a)), evalInChildProc(key, fmt.Sprint(b))
	x1, x2 := ra.A, rb.A
	if x1 == x2 {
		x1, x2 = ra.B, rb.B
	}
	if x1 == x2 || x1 == overBudgetMark || x2 == overBudgetMark {
		return "", nil
	}
	x, y := firstDiffLine(x1, x2)
	rule := ruleOfLine(x)
	if x == "" {
		rule = ruleOfLine(y)
	}
	w := &Witness{Key: key.ObsKey, Kind: "process", RenderingFirst: x1, RenderingLater: x2, Rule: rule,
		FirstDiffLine: x + "  <>  " + y + fmt.Sprintf("   (alone in a fresh process with process seed %d  <>  alone in a fresh process with process seed %d)", a, b)}
	return "disagree-procseed|rule=" + rule + "|site=process-level-clock-or-randomness", w
}

func replayC10(rp *c10Replay, verbose bool) (string, *Witness) {
	if len(rp.ProcSeeds) == 2 && rp.HistoryKey != nil {
		return procSeedOracle(rp.HistoryKey, rp.ProcSeeds[0], rp.ProcSeeds[1])
	}
	all := replaySessions(rp)
	for _, s := range all {
		s.Explicit = true
		dropInapplicableRules(s, verbose)
	}
	return runSessionsOracle(all, rp.HistoryKey)
}

// ---------- escalation: witnesses that need earlier sessions ----------

type sessDesc struct {
	Seed      uint64 `json:"seed"`
	Source    string `json:"source"`
	Canonical bool   `json:"canonical"`
}

func (d sessDesc) build() *Session {
	s := genSession(d.Seed, d.Source)
	if d.Canonical {
		s.Weights = [5]uint8{}
		s.Mix = "canonical"
	}
	return s
}

type descReplay struct {
	Descs []sessDesc `json:"descs"`
	Key   *isoKey    `json:"key,omitempty"`
}

// c10ReplayDescMain replays sessions given by their seeds (used while
// minimising; the published replay carries explicit sessions).
func c10ReplayDescMain(args []string) {
	var dr descReplay
	readJSON(args[0], &dr)
	var all []*Session
	for _, d := range dr.Descs {
		all = append(all, d.build())
	}
	class, w := runSessionsOracle(all, dr.Key)
	if w != nil {
		fmt.Printf("REPRODUCED class=%s\n", class)
		os.Exit(1)
	}
	fmt.Println("NOT-REPRODUCED")
}

// c10EscalateMain builds a multi-session witness: the sessions 0..index of one
// worker, reduced by delta debugging over whole sessions, then over operations;
// every candidate runs in a fresh process.
func c10EscalateMain(args []string) {
	fs := flag.NewFlagSet("c10-escalate", flag.ExitOnError)
	seed := fs.Uint64("seed", 1, "VERIF_SEED")
	worker := fs.Int("worker", 0, "worker whose sessions form the history")
	index := fs.Int("index", 0, "index of the session that showed the difference")
	sources := fs.String("sources", "corpus,gen", "workload sources")
	canonical := fs.Bool("canonical", false, "the worker ran with the canonical seam")
	isoIn := fs.String("iso", "", "isolated-oracle mismatch (JSON) whose key is the oracle; empty: dictionary oracle")
	out := fs.String("out", "", "replay file to write")
	budget := fs.Duration("budget", 90*time.Second, "minimisation budget")
	fs.Parse(args)
	srcs := strings.Split(*sources, ",")
	wseed := gen.Mix(*seed, uint64(*worker)+1000)
	var descs []sessDesc
	for n := 0; n <= *index; n++ {
		descs = append(descs, sessDesc{Seed: gen.Mix(wseed, uint64(n)), Source: srcs[n%len(srcs)], Canonical: *canonical})
	}
	var key *isoKey
	if *isoIn != "" {
		var m isoMismatch
		readJSON(*isoIn, &m)
		key = &m.Key
	}
	tmp := *out + ".cand.json"
	tries := 0
	tryDescs := func(ds []sessDesc) bool {
		tries++
		writeJSON(tmp, descReplay{Descs: ds, Key: key})
		o, _ := exec.Command(os.Args[0], "c10-replay-desc", tmp).CombinedOutput()
		return strings.Contains(string(o), "REPRODUCED class=")
	}
	if !tryDescs(descs) {
		os.Remove(tmp)
		fatal(3, "the worker's sessions 0..%d do not reproduce the difference in a fresh process", *index)
	}
	deadline := time.Now().Add(*budget)
	// delta debugging over whole sessions
	for chunk := (len(descs) + 1) / 2; chunk >= 1; chunk /= 2 {
		for i := 0; i < len(descs) && time.Now().Before(deadline); {
			if len(descs) <= 1 {
				break
			}
			j := i + chunk
			if j > len(descs) {
				j = len(descs)
			}
			cand := append(append([]sessDesc{}, descs[:i]...), descs[j:]...)
			if len(cand) > 0 && tryDescs(cand) {
				descs = cand
			} else {
				i += chunk
			}
		}
		if chunk == 1 {
			break
		}
	}
	// materialise: explicit sessions with the permutations they actually got
	var sessions []*Session
	for _, d := range descs {
		s := d.build()
		r := runSession(s, false)
		sessions = append(sessions, explicitForm(s, r))
	}
	mk := func(ss []*Session) *c10Replay {
		return &c10Replay{Format: "verif-c10-replay/2", Property: "C10", Session: ss[len(ss)-1], History: ss[:len(ss)-1], HistoryKey: key, Replay: true}
	}
	tryReplay := func(ss []*Session) (string, bool) {
		tries++
		writeJSON(tmp, mk(ss))
		o, _ := exec.Command(os.Args[0], "c10-replay", tmp).CombinedOutput()
		if i := strings.Index(string(o), "REPRODUCED class="); i >= 0 {
			l := string(o)[i+len("REPRODUCED class="):]
			if j := strings.IndexByte(l, '\n'); j >= 0 {
				l = l[:j]
			}
			return l, true
		}
		return "", false
	}
	class, ok := tryReplay(sessions)
	if !ok {
		os.Remove(tmp)
		fatal(3, "the materialised sessions do not reproduce the difference in a fresh process")
	}
	// all map orders canonical? then the difference is pure history
	{
		c := make([]*Session, len(sessions))
		any := false
		for i, ss := range sessions {
			c[i] = cloneSession(ss)
			for j := range c[i].Ops {
				if len(c[i].Ops[j].Orders) > 0 {
					any = true
				}
				c[i].Ops[j].Orders = nil
			}
		}
		if any {
			if cl, ok := tryReplay(c); ok {
				sessions, class = c, cl
			}
		}
	}
	// drop operations, newest first, session by session
	for si := len(sessions) - 1; si >= 0; si-- {
		for i := len(sessions[si].Ops) - 1; i >= 0 && time.Now().Before(deadline); i-- {
			if len(sessions[si].Ops) <= 1 {
				break
			}
			c := make([]*Session, len(sessions))
			copy(c, sessions)
			c[si] = cloneSession(sessions[si])
			c[si].Ops = append(c[si].Ops[:i], c[si].Ops[i+1:]...)
			if cl, ok := tryReplay(c); ok {
				sessions, class = c, cl
			}
		}
	}
	for i := range sessions {
		sessions[i] = compactPools(sessions[i])
	}
	if cl, ok := tryReplay(sessions); ok {
		class = cl
	} else {
		os.Remove(tmp)
		fatal(3, "compacted witness does not reproduce")
	}
	os.Remove(tmp)
	rp := mk(sessions)
	rp.Class = class
	// attach the witness as computed by a last in-process evaluation is not
	// possible here (this process has its own history): the replay prints it
	rp.Note = fmt.Sprintf("multi-session witness: %d session(s) executed in one process; reduced from %d sessions of worker %d in %d candidate executions, each in a fresh process", len(sessions), *index+1, *worker, tries)
	writeJSON(*out, rp)
	fmt.Printf("escalated witness: class=%s sessions=%d candidates=%d\n", class, len(sessions), tries)
}

// c10HistoryWitnessMain turns one isolated-oracle mismatch into a replay file:
// first the session alone, and if its own history does not explain the
// difference, the worker's earlier sessions as well.
func c10HistoryWitnessMain(args []string) {
	fs := flag.NewFlagSet("c10-history-witness", flag.ExitOnError)
	in := fs.String("in", "", "mismatch (JSON, one isoMismatch)")
	out := fs.String("out", "", "replay file to write")
	seed := fs.Uint64("seed", 1, "VERIF_SEED")
	sources := fs.String("sources", "corpus,gen", "workload sources")
	budget := fs.Duration("budget", 90*time.Second, "minimisation budget")
	fs.Parse(args)
	var m isoMismatch
	readJSON(*in, &m)
	if m.SelfInconsistent {
		// the key alone is the witness: load, validate, validate again through
		// the other entry point, all in one fresh process
		sess := &Session{Seed: m.Key.Session, Source: "isolated-key", Explicit: true,
			Schemas: []NamedText{{m.Key.SchemaName, m.Key.Schema}}, Splits: [][]int{m.Key.Cuts}, SplitSameName: m.Key.SameName, SplitBuiltIn: m.Key.BuiltIn}
		if m.Key.Kind == "L" {
			sess.Ops = []Op{{Kind: "load", S: 0}, {Kind: "load", S: 0}}
		} else {
			sess.Docs = []string{m.Key.Doc}
			sess.NamedDocs = m.Key.DocName != ""
			sess.Ops = []Op{{Kind: "load", S: 0}, {Kind: "first", S: 0, D: 0}, {Kind: "first", S: 0, D: 0}}
			if m.Key.Kind == "Q" {
				sess.Ops = []Op{{Kind: "load", S: 0}, {Kind: "query", S: 0, D: 0}, {Kind: "query", S: 0, D: 0}}
			}
		}
		for i := range sess.Ops {
			// clock and randomness (if the library uses any): one stream per operation
			sess.Ops[i].Clock = &ClockJ{Seed: uint64(0xa11 + i*0x1111), Mode: int32(2 + i%2)}
		}
		rp := &c10Replay{Format: "verif-c10-replay/2", Property: "C10", Session: sess, Replay: true,
			Note: "one schema text, one document text, one fresh process: the second evaluation on the same schema object differs from the first"}
		tmp := *out + ".cand.json"
		writeJSON(tmp, rp)
		o, _ := exec.Command(os.Args[0], "c10-replay", tmp).CombinedOutput()
		os.Remove(tmp)
		i := strings.Index(string(o), "REPRODUCED class=")
		if i < 0 {
			fatal(3, "self-inconsistent key does not reproduce as a session")
		}
		class := string(o)[i+len("REPRODUCED class="):]
		if j := strings.IndexByte(class, '\n'); j >= 0 {
			class = class[:j]
		}
		rp.Class = class
		writeJSON(*out, rp)
		fmt.Printf("escalated witness: class=%s sessions=1 candidates=1\n", class)
		return
	}
	// the cheapest explanation first: no history at all, only another process.
	// (The isolated oracle's children run with process seeds of their own.)
	for _, ps := range []uint64{1, 2, 3, 5, 8, 13} {
		if class, w := procSeedOracle(&m.Key, 0, ps); w != nil {
			k := m.Key
			rp := &c10Replay{Format: "verif-c10-replay/2", Property: "C10", Class: class, HistoryKey: &k, ProcSeeds: []uint64{0, ps}, Witness: w, Replay: true,
				Site: "process-level-clock-or-randomness",
				Note: "one schema text, one document text, two fresh processes that do nothing else: the results differ. The only difference between the processes is VERIF_PROCSEED, the seed of the clock readings and random draws the library makes outside any operation (package initialisation, first-use state)"}
			writeJSON(*out, rp)
			fmt.Printf("escalated witness: class=%s sessions=0 candidates=%d\n", class, ps)
			return
		}
	}
	c10EscalateMain([]string{"--seed", fmt.Sprint(*seed), "--worker", "0", "--index", fmt.Sprint(m.Key.Index), "--sources", *sources, "--canonical", "--iso", *in, "--out", *out, "--budget", budget.String()})
}

// c10CanonMinMain: is a violation found under perturbed map orders really due
// to them? The same sessions are replayed in a fresh process with every map
// order canonical; if the difference is still there it is history-dependence,
// and the witness is reduced with fresh-process candidates (operations only).
// Exit 4: the canonical variant does not reproduce (the map orders matter).
func c10CanonMinMain(args []string) {
	fs := flag.NewFlagSet("c10-canon-min", flag.ExitOnError)
	in := fs.String("in", "", "replay file")
	out := fs.String("out", "", "replay file to write")
	budget := fs.Duration("budget", 45*time.Second, "minimisation budget")
	fs.Parse(args)
	var rp c10Replay
	readJSON(*in, &rp)
	sessions := replaySessions(&rp)
	any := false
	for i, ss := range sessions {
		sessions[i] = cloneSession(ss)
		sessions[i].Explicit = true
		for j := range sessions[i].Ops {
			if len(sessions[i].Ops[j].Orders) > 0 {
				any = true
			}
			sessions[i].Ops[j].Orders = nil
		}
	}
	if !any {
		os.Exit(4)
	}
	tmp := *out + ".cand.json"
	mk := func(ss []*Session) *c10Replay {
		return &c10Replay{Format: "verif-c10-replay/2", Property: "C10", Session: ss[len(ss)-1], History: ss[:len(ss)-1], HistoryKey: rp.HistoryKey, Replay: true}
	}
	tries := 0
	tryReplay := func(ss []*Session) (string, bool) {
		tries++
		writeJSON(tmp, mk(ss))
		o, _ := exec.Command(os.Args[0], "c10-replay", tmp).CombinedOutput()
		if i := strings.Index(string(o), "REPRODUCED class="); i >= 0 {
			l := string(o)[i+len("REPRODUCED class="):]
			if j := strings.IndexByte(l, '\n'); j >= 0 {
				l = l[:j]
			}
			return l, true
		}
		return "", false
	}
	class, ok := tryReplay(sessions)
	if !ok {
		os.Remove(tmp)
		os.Exit(4)
	}
	deadline := time.Now().Add(*budget)
	for si := len(sessions) - 1; si >= 0; si-- {
		for i := len(sessions[si].Ops) - 1; i >= 0 && time.Now().Before(deadline); i-- {
			if len(sessions[si].Ops) <= 1 {
				break
			}
			c := make([]*Session, len(sessions))
			copy(c, sessions)
			c[si] = cloneSession(sessions[si])
			c[si].Ops = append(c[si].Ops[:i], c[si].Ops[i+1:]...)
			if cl, ok := tryReplay(c); ok {
				sessions, class = c, cl
			}
		}
	}
	for i := range sessions {
		sessions[i] = compactPools(sessions[i])
	}
	if cl, ok := tryReplay(sessions); ok {
		class = cl
	} else {
		os.Remove(tmp)
		fatal(3, "compacted witness does not reproduce")
	}
	os.Remove(tmp)
	n := mk(sessions)
	n.Class = class
	n.Note = fmt.Sprintf("found under perturbed map orders, but reproduces with every map order canonical: the result depends on what the process did before; reduced in %d fresh-process candidate executions", tries)
	writeJSON(*out, n)
	fmt.Printf("escalated witness: class=%s sessions=%d candidates=%d\n", class, len(sessions), tries)
}

// c10KeyMain prints the isolated-oracle key (texts) of one observation of a
// generated session: --seed, --source, --obs (L|i, V|i|j or Q|i|j).
func c10KeyMain(args []string) {
	fs := flag.NewFlagSet("c10-key", flag.ExitOnError)
	seed := fs.Uint64("seed", 0, "session seed")
	source := fs.String("source", "gen", "session source")
	obs := fs.String("obs", "", "observation key")
	fs.Parse(args)
	s := genSession(*seed, *source)
	var si, di int
	k := isoKey{Kind: "V", Session: *seed, Source: *source, ObsKey: *obs}
	if strings.HasPrefix(*obs, "Q|") {
		k.Kind = "Q"
	}
	if strings.HasPrefix(*obs, "L|") {
		fmt.Sscanf(*obs, "L|%d", &si)
		k.Kind = "L"
	} else {
		fmt.Sscanf((*obs)[1:], "|%d|%d", &si, &di)
		if di < len(s.Docs) {
			k.Doc = s.Docs[di]
		}
		if strings.HasPrefix(*obs, "V|") {
			k.DocName = docName(s, di)
		}
	}
	if si >= len(s.Schemas) {
		fatal(2, "c10-key: no such schema in this session")
	}
	k.SchemaName, k.Schema = s.Schemas[si].Name, s.Schemas[si].Text
	k.Cuts, k.SameName, k.BuiltIn = cutsOf(s, si), s.SplitSameName, s.SplitBuiltIn
	writeJSON("-", k)
}
