#!/usr/bin/env python3
# fill the @C1x-nn-s@ placeholders of DESIGN.md section 7.2 from a tools/seeded.sh log
import re, sys
log = open(sys.argv[1]).read()
res = {}
for m in re.finditer(r'^(\S+) \[(C1[01])\] seed=(\d+) exit=(\d+) violations=(\d+)', log, re.M):
    i, prop, seed, ex, v = m.groups()
    res[(i, seed)] = 'Y' if ex == '1' and int(v) > 0 else ('exit 2' if ex == '2' else 'missed')
p = '/verif/DESIGN.md'
s = open(p).read()
def sub(m):
    k = (m.group(1), m.group(2))
    return res.get(k, m.group(0))
s = re.sub(r'@(C1[01]-\d\d)-(\d)@', sub, s)
open(p, 'w').write(s)
print(sorted(set(res.values())), len(res))
