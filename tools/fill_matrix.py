#!/usr/bin/env python3
# Fill the s1/s2 columns of the table in DESIGN.md section 7.2 from a tools/seeded.sh
# log (seeds 1 and 2); the s3 column keeps what an earlier run recorded.
#   usage: tools/fill_matrix.py <log> [--write]
import re, sys
log = open(sys.argv[1]).read()
res = {}
for m in re.finditer(r'^(\S+) \[(C1[01])\] seed=(\d+) exit=(\d+) violations=(\d+) time=(\d+)s expect=(\w+)', log, re.M):
    i, prop, seed, ex, v, t, exp = m.groups()
    if exp != 'violation':
        continue
    cell = 'Y' if ex == '1' and int(v) > 0 else ('exit 2' if ex == '2' else 'missed')
    if cell == 'Y' and not i.startswith(prop) and i[0] == 'C':
        cell = 'Y (%s)' % prop
    res[(i, seed)] = cell
p = '/verif/DESIGN.md'
out = []
n = 0
for line in open(p).read().split('\n'):
    m = re.match(r'^\| (C1[01]-\d\d) \|', line)
    if m and (m.group(1), '1') in res:
        cells = line.split(' | ')
        # last three cells: s1 | s2 | s3 |
        s3 = cells[-1].rstrip(' |')
        cells[-3] = res[(m.group(1), '1')]
        cells[-2] = res.get((m.group(1), '2'), cells[-2])
        cells[-1] = s3 + ' |'
        line = ' | '.join(cells)
        n += 1
    out.append(line)
tot = {}
for (i, seed), c in res.items():
    tot.setdefault(seed, {}).setdefault(c.split(' ')[0], []).append(i)
for seed in sorted(tot):
    print('seed', seed, {k: len(v) for k, v in tot[seed].items()}, 'not caught:', sorted(sum([v for k, v in tot[seed].items() if k != 'Y'], [])))
print('rows updated:', n)
if '--write' in sys.argv:
    open(p, 'w').write('\n'.join(out))
