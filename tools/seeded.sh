#!/bin/bash
# Sensitivity experiment: apply each change under /verif/seeded (or the given ids)
# to /repo, run the matching check, undo it straight afterwards, and record
# whether it was detected.   usage: tools/seeded.sh [--tier quick] [--seeds "1 2"] [id ...]
cd /verif || exit 2
TIER=quick; SEEDS="1"; WALL=""; PROP=""; EXTRA=""
while [ $# -gt 0 ]; do case "$1" in --tier) TIER=$2; shift 2;; --seeds) SEEDS=$2; shift 2;; --wall) WALL="--wall $2"; shift 2;; --prop) PROP=$2; shift 2;; --fast) EXTRA="--min-budget 30s --max-classes 2"; shift;; *) break;; esac; done
IDS="$@"; [ -z "$IDS" ] && IDS=$(ls seeded | grep -E '^(C1[01]|M1[01]|E1[01]|X1[01])-')
if [ -n "$(git -C /repo status --porcelain)" ]; then echo "seeded.sh: /repo is not clean, refusing"; exit 2; fi
# the checks rewrite evidence/<id>.json on every run: keep the files that were
# written on the unchanged tree and put them back when done
EVBAK=$(mktemp -d /var/tmp/verif-evidence-XXXXXX); cp evidence/*.json $EVBAK/ 2>/dev/null
trap 'git -C /repo checkout -q -- . && git -C /repo clean -fdq 2>/dev/null; cp $EVBAK/*.json /verif/evidence/ 2>/dev/null; rm -rf $EVBAK' EXIT
mkdir -p seeded/results
for id in $IDS; do
  prop=$(jq -r .property seeded/$id/meta.json); [ -n "$PROP" ] && prop=$PROP
  # a change produced for one property but decided by the other check (see meta.json "also")
  also=$(jq -r '.also // empty' seeded/$id/meta.json)
  expect=$(jq -r '.expect // "violation"' seeded/$id/meta.json)
  props=$prop
  # "also" on a property-breaking change: the other check is the one that decides it;
  # on an equivalent change: both checks must stay silent
  if [ -z "$PROP" ] && [ -n "$also" ]; then if [ "$expect" = silent ]; then props="$prop $also"; else props=$also; fi; fi
  for prop in $props; do for seed in $SEEDS; do
    git -C /repo apply /verif/seeded/$id/patch.diff || { echo "$id: patch does not apply"; continue; }
    t0=$(date +%s)
    out=$(VERIF_SEED=$seed ./run $prop --tier $TIER $WALL $EXTRA 2>&1); code=$?
    t1=$(date +%s)
    git -C /repo checkout -q -- . && git -C /repo clean -fdq
    viol=$(echo "$out" | grep -c '^VIOLATION')
    classes=$(echo "$out" | grep -o 'violation [^:]*:[^ ]*[^"]*' | cut -c1-160 | head -3 | tr '\n' ';')
    echo "$id [$prop] seed=$seed exit=$code violations=$viol time=$((t1-t0))s expect=$expect :: $classes"
    echo "$out" > seeded/results/$id.$prop.seed$seed.log
    rp=$(echo "$out" | grep -m1 -o 'replay=[^ ]*' | cut -d= -f2)
    [ -n "$rp" ] && cp "$rp" seeded/results/$id.seed$seed.replay.json 2>/dev/null
  done; done
done
