#!/bin/bash
# For each id: apply the seeded change, run the check, replay the published
# file (must reproduce: exit 1), undo the change, replay again (must not: exit 0).
cd /verif || exit 2
[ -n "$(git -C /repo status --porcelain)" ] && { echo "/repo not clean"; exit 2; }
EVBAK=$(mktemp -d /var/tmp/verif-evidence-XXXXXX); cp evidence/*.json $EVBAK/ 2>/dev/null
trap 'git -C /repo checkout -q -- . && git -C /repo clean -fdq 2>/dev/null; cp $EVBAK/*.json /verif/evidence/ 2>/dev/null; rm -rf $EVBAK' EXIT
for id in "$@"; do
  prop=$(jq -r .property seeded/$id/meta.json)
  git -C /repo apply /verif/seeded/$id/patch.diff || continue
  out=$(./run $prop --tier quick 2>&1); c1=$?
  rp=$(echo "$out" | grep -m1 -o 'replay=[^ ]*' | cut -d= -f2)
  if [ -z "$rp" ]; then echo "$id: no violation (exit $c1)"; git -C /repo checkout -q -- . && git -C /repo clean -fdq; continue; fi
  r1=$(./run $prop --replay $rp 2>&1); c2=$?
  git -C /repo checkout -q -- . && git -C /repo clean -fdq
  r2=$(./run $prop --replay $rp 2>&1); c3=$?
  echo "$id: check exit=$c1 replay-with-change exit=$c2 replay-on-clean-tree exit=$c3  ($(echo "$r1" | grep -m1 REPRODUCED | cut -c1-120))"
done
