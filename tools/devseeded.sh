#!/bin/bash
# development twin of seeded.sh: runs the checks of THIS worktree against /repo's HEAD plus a
# seeded patch applied to the scratch copies only (does not touch /repo's working tree)
cd "$(dirname "$0")/.." || exit 2
export GOFLAGS=-mod=mod GOPROXY=off GOSUMDB=off GOTOOLCHAIN=local VERIF_HOME=$PWD VERIF_REPO_HEAD=1
PROP=""; [ "$1" = "--prop" ] && { PROP=$2; shift 2; }
for id in "$@"; do
  prop=$(jq -r .property /verif/seeded/$id/meta.json); [ -n "$PROP" ] && prop=$PROP
  t0=$(date +%s)
  out=$(VERIF_REPO_PATCH=/verif/seeded/$id/patch.diff ./bin/check $prop --tier quick --min-budget 30s --max-classes 2 2>&1); code=$?
  t1=$(date +%s)
  echo "$id [$prop] exit=$code violations=$(echo "$out" | grep -c '^VIOLATION') time=$((t1-t0))s :: $(echo "$out" | grep -o 'violation [^:]*:[^ ]*[^"]*' | cut -c1-140 | head -2 | tr '\n' ';')"
  echo "$out" > /tmp/devseeded-$id.log
done
