#!/bin/bash
# dev helper: (re)build an instrumented scratch copy at $1 (default /var/tmp/vs-dev)
#   PATCH=file  apply a patch first;  PRISTINE=1 no instrumentation;  RACE=-race
#   CLEAN=1     start from /repo's HEAD (git archive) instead of its working tree
set -e
export GOFLAGS=-mod=mod GOPROXY=off GOSUMDB=off GOTOOLCHAIN=local
S=${1:-/var/tmp/vs-dev}
rm -rf $S && mkdir -p $S
if [ -n "$CLEAN" ]; then git -C /repo archive HEAD | tar -x -C $S; else rsync -a --exclude .git /repo/ $S/; fi
[ -n "$PATCH" ] && (cd $S && patch -p1 -s < $PATCH)
mkdir -p $S/verifsim && cp -r ${VERIF_HOME:-/verif}/simrt/verifsim/. $S/verifsim/
sed -i 's/^go 1.22$/go 1.23/' $S/go.mod
if [ -z "$PRISTINE" ]; then ${VERIF_HOME:-/verif}/bin/instrument $S > $S/instrument.json; else ${VERIF_HOME:-/verif}/bin/instrument -pristine $S > $S/instrument.json; fi
cp -r ${VERIF_HOME:-/verif}/harness/zz_verif $S/
cd $S && go build -trimpath $RACE -o sim.bin ./zz_verif/sim && echo built $S/sim.bin
