// Package verifsim is the simulator runtime that /verif's instrumenter links
// into a scratch copy of the library. It is never part of /repo.
//
// Design (see /verif/DESIGN.md section 3.2 and appendix A):
//   - tasks are real goroutines that run strictly one at a time; the handoff is
//     a raw read(2)/write(2) on a per-task pipe issued with syscall.Syscall, so
//     the race detector sees no happens-before edge between tasks;
//   - every decision (who runs next, preemption, fault, sample, map order)
//     comes from splitmix64 streams seeded by the run seed, or from an explicit
//     table when replaying;
//   - all simulator state lives in plain arrays inside one struct and is only
//     touched from //go:norace functions.
package verifsim

import (
	"os"
	"runtime"
	"sort"
	"sync"
	"syscall"
	"unsafe"
)

const MaxTasks = 40

// Strategies.
const (
	StratSequential = 0
	StratRandom     = 1
	StratPCT        = 2
	StratBurst      = 3
	StratExplicit   = 4
)

// Site kinds (bit positions in SiteMask).
const (
	KindEntry = 1
	KindLoop  = 2
	KindStmt  = 4
	KindOp    = 8  // operation boundary / writer yield issued by the harness
	KindSync  = 16 // just before / after a statement that calls into sync or sync/atomic
)

// Event kinds.
const (
	EvSwitch = 1
	EvExit   = 2
	EvSample = 3
	EvAbort  = 4
	EvStall  = 5
	EvWake   = 6
)

// Fault kinds.
const (
	FaultAbort = 1
	FaultStall = 2
)

type Event struct {
	Kind      int32
	Step      uint64
	Task      int32
	TaskYield uint64
	To        int32
	Site      int32
}

// Decision is one entry of an explicit schedule: when Task reaches its
// Yield-th yield, do Kind (EvSwitch to To, or EvSample).
type Decision struct {
	Kind  int32
	Task  int32
	Yield uint64
	To    int32
}

type Fault struct {
	Kind  int32
	Task  int32
	Yield uint64 // task-local yield number at which it fires
}

type Config struct {
	Seed       uint64
	NTasks     int
	First      int32 // task released first (-1: chosen by strategy)
	Strategy   int
	SwitchMask uint64 // random: switch iff rng&mask==0
	SiteMask   uint8
	PCTChanges []uint64 // global step numbers
	BurstTask  int32
	BurstYield uint64
	Explicit   []Decision
	Faults     []Fault
	SampleMask uint64 // sample iff rng&mask==0 ; 0 = never (use ^0 for never)
	Sampling   bool
	Budget     uint64
	LogCap     int
	SiteKinds  []uint8 // indexed by site id
}

type state struct {
	active   bool
	n        int32
	cur      int32
	st       [MaxTasks + 1]int32 // 0 runnable, 1 stalled, 2 done
	rfd, wfd [MaxTasks + 1]int32
	buf      [MaxTasks + 1][8]byte

	strategy   int
	rng        uint64
	sampleRng  uint64
	switchMask uint64
	sampleMask uint64
	sampling   bool
	siteMask   uint8
	siteKinds  []uint8
	prio       [MaxTasks + 1]int64
	lowPrio    int64
	pct        []uint64
	pctPos     int
	burstTask  int32
	burstYield uint64
	burstOps   [MaxTasks + 1]uint64
	burstOn    bool
	explicit   []Decision
	expByTask  [MaxTasks + 1][]Decision
	expPos     [MaxTasks + 1]int
	faults     []Fault
	budget     uint64
	overBudget bool

	step      uint64
	yields    [MaxTasks + 1]uint64
	ops       [MaxTasks + 1]uint64
	noPreempt [MaxTasks + 1]int32
	lockLeaks int32              // operations that returned inside a Lock()/Unlock() bracket
	aborting  [MaxTasks + 1]bool // an abort fired in the task's current operation and has not been acknowledged
	// per-operation yield budget (slot MaxTasks = the single caller outside a
	// simulation): an operation that passes more yield points than this is cut
	// off like an abort. Termination is C02's subject; the budget only keeps a
	// non-terminating library call from wedging a check.
	opBudget [MaxTasks + 1]uint64
	opCount  [MaxTasks + 1]uint64
	opOver   [MaxTasks + 1]bool
	pathHash [MaxTasks + 1]uint64
	switches uint64

	log  []Event
	nlog int

	onSample func(task int32)
	inSample bool

	// preemption coverage: (site preempted at) recorded into the log already.
	progress uint64 // bumped on every yield; read by the watchdog
}

var s state

var (
	jitter      = os.Getenv("VERIF_JITTER") != ""
	jitterState uint64
)

type Abort struct{ Task int32 }

//go:norace
func next64(x *uint64) uint64 {
	*x += 0x9e3779b97f4a7c15
	z := *x
	z = (z ^ (z >> 30)) * 0xbf58476d1ce4e5b9
	z = (z ^ (z >> 27)) * 0x94d049bb133111eb
	return z ^ (z >> 31)
}

// Mix derives an independent stream seed.
//
//go:norace
func Mix(a, b uint64) uint64 {
	x := a ^ (b+0x632be59bd9b4e019)*0x9e3779b97f4a7c15
	return next64(&x)
}

//go:norace
func park(i int32) {
	for {
		n, _, e := syscall.Syscall(syscall.SYS_READ, uintptr(s.rfd[i]), uintptr(unsafe.Pointer(&s.buf[i][0])), 1)
		if e == syscall.EINTR {
			continue
		}
		if n == 1 {
			return
		}
		panic("verifsim: park read failed")
	}
}

//go:norace
func release(i int32) {
	b := [1]byte{1}
	for {
		n, _, e := syscall.Syscall(syscall.SYS_WRITE, uintptr(s.wfd[i]), uintptr(unsafe.Pointer(&b[0])), 1)
		if e == syscall.EINTR {
			continue
		}
		if n == 1 {
			return
		}
		panic("verifsim: release write failed")
	}
}

// Setup is called by the main goroutine before tasks are spawned. Slot n is
// the main goroutine's own parking slot.
func Setup(c Config) {
	if c.NTasks > MaxTasks {
		panic("verifsim: too many tasks")
	}
	s = state{}
	s.n = int32(c.NTasks)
	s.strategy = c.Strategy
	s.rng = Mix(c.Seed, 1)
	s.sampleRng = Mix(c.Seed, 2)
	s.switchMask = c.SwitchMask
	s.sampleMask = c.SampleMask
	s.sampling = c.Sampling
	s.siteMask = c.SiteMask
	s.siteKinds = c.SiteKinds
	s.pct = c.PCTChanges
	s.burstTask = c.BurstTask
	s.burstYield = c.BurstYield
	s.explicit = c.Explicit
	for _, d := range c.Explicit {
		if d.Task >= 0 && int(d.Task) <= MaxTasks {
			s.expByTask[d.Task] = append(s.expByTask[d.Task], d)
		}
	}
	for i := range s.expByTask {
		l := s.expByTask[i]
		sort.SliceStable(l, func(a, b int) bool { return l[a].Yield < l[b].Yield })
	}
	s.faults = c.Faults
	s.budget = c.Budget
	if c.LogCap <= 0 {
		c.LogCap = 1 << 12
	}
	s.log = make([]Event, c.LogCap)
	pr := Mix(c.Seed, 3)
	for i := 0; i <= c.NTasks; i++ {
		var p [2]int
		if err := syscall.Pipe(p[:]); err != nil {
			panic(err)
		}
		s.rfd[i], s.wfd[i] = int32(p[0]), int32(p[1])
		// distinct random priorities: high 32 bits random, low bits index
		s.prio[i] = int64(next64(&pr)>>33)<<8 | int64(i)
	}
	s.lowPrio = -1
	s.cur = c.First
	for i := range condTab {
		condTab[i] = condRec{}
	}
	condN = 0
}

func Teardown() {
	for i := int32(0); i <= s.n; i++ {
		syscall.Close(int(s.rfd[i]))
		syscall.Close(int(s.wfd[i]))
	}
	s.active = false
	s.onSample = nil
}

func SetOnSample(f func(task int32)) { s.onSample = f }

//go:norace
func logEv(kind int32, task int32, to int32, site int32) {
	if s.nlog < len(s.log) {
		s.log[s.nlog] = Event{kind, s.step, task, s.yields[task], to, site}
	}
	s.nlog++
}

// pickOther returns the task to run when `me` cannot or should not continue
// (me == -1: nobody is running). Returns -1 if no other task is runnable.
//
//go:norace
func pickOther(me int32) int32 {
	switch s.strategy {
	case StratPCT:
		best := int32(-1)
		for i := int32(0); i < s.n; i++ {
			if s.st[i] == 0 && i != me && (best < 0 || s.prio[i] > s.prio[best]) {
				best = i
			}
		}
		return best
	case StratExplicit:
		for i := int32(0); i < s.n; i++ {
			if s.st[i] == 0 && i != me {
				return i
			}
		}
		return -1
	}
	var cand [MaxTasks]int32
	c := 0
	for i := int32(0); i < s.n; i++ {
		if s.st[i] == 0 && i != me {
			cand[c] = i
			c++
		}
	}
	if c == 0 {
		return -1
	}
	return cand[next64(&s.rng)%uint64(c)]
}

//go:norace
func wakeStalled() bool {
	woke := false
	for i := int32(0); i < s.n; i++ {
		if s.st[i] == 1 {
			s.st[i] = 0
			logEv(EvWake, i, -1, -1)
			woke = true
		}
	}
	s.burstOn = false
	return woke
}

// explicitFor consumes the explicit decision for (task, yield) if any.
//
//go:norace
func explicitFor(task int32, y uint64, kind int32) (Decision, bool) {
	l := s.expByTask[task]
	p := s.expPos[task]
	for p < len(l) && l[p].Yield < y {
		p++
	}
	s.expPos[task] = p
	for i := p; i < len(l) && l[i].Yield == y; i++ {
		if l[i].Kind == kind {
			return l[i], true
		}
	}
	return Decision{}, false
}

// TaskStart is the first thing a task goroutine calls.
//
//go:norace
func TaskStart(i int32) { park(i) }

// TaskExit is the last simulator call of a task goroutine; the goroutine
// must afterwards stay alive (blocked outside the simulator) until the run ends.
//
//go:norace
func TaskExit(i int32) {
	s.st[i] = 2
	s.step++
	var nx int32 = -1
	if s.strategy == StratExplicit {
		if d, ok := explicitFor(i, ^uint64(0), EvExit); ok && d.To >= 0 && d.To < s.n && s.st[d.To] == 0 {
			nx = d.To
		}
	}
	if nx < 0 {
		nx = pickOther(i)
	}
	if nx < 0 && wakeStalled() {
		nx = pickOther(i)
	}
	logEv(EvExit, i, nx, -1)
	if nx < 0 {
		s.cur = s.n
		release(s.n)
		return
	}
	s.cur = nx
	release(nx)
}

// Run is called by the main goroutine: starts the simulation and blocks until
// every task has exited.
//
//go:norace
func Run() {
	s.active = true
	nx := s.cur
	if nx < 0 || nx >= s.n {
		nx = pickOther(-1)
	}
	s.cur = nx
	release(nx)
	park(s.n)
	s.active = false
}

//go:norace
func switchTo(me, nx, site int32) {
	logEv(EvSwitch, me, nx, site)
	s.switches++
	s.cur = nx
	release(nx)
	park(me)
}

// ---- sync.Cond ----
//
// A task that really blocked in Cond.Wait would wait for a peer the simulator
// has parked: nothing would ever move. The instrumenter therefore routes the
// three methods of sync.Cond here. Wait is executed as what it means: release
// the lock, let other tasks run, take the lock again - and return only once a
// Signal or Broadcast on this Cond has been seen since the wait began (a
// Signal wakes every simulated waiter, not one: the others re-check their
// predicate, as the documentation of sync.Cond tells callers to). If nobody
// else can run, the real Wait is called: the library waits for a wake-up
// that no caller will send, and the watchdog ends the run (exit 2).

type condRec struct {
	c   *sync.Cond
	gen uint64
}

var condTab [64]condRec
var condN int

//go:norace
func condGen(c *sync.Cond) *uint64 {
	for i := 0; i < condN; i++ {
		if condTab[i].c == c {
			return &condTab[i].gen
		}
	}
	if condN < len(condTab) {
		condTab[condN] = condRec{c: c}
		condN++
		return &condTab[condN-1].gen
	}
	// table full: share a counter (more wake-ups, never fewer)
	return &condTab[0].gen
}

//go:norace
func CondBroadcast(c *sync.Cond) {
	if s.active {
		*condGen(c)++
	}
	c.Broadcast()
}

//go:norace
func CondSignal(c *sync.Cond) {
	if s.active {
		*condGen(c)++
	}
	c.Signal()
}

//go:norace
func CondWait(c *sync.Cond) {
	if !s.active {
		c.Wait()
		return
	}
	g := condGen(c)
	g0 := *g
	for *g == g0 {
		me := s.cur
		nx := pickOther(me)
		if nx < 0 {
			c.Wait() // nobody left who could wake us
			return
		}
		c.L.Unlock()
		s.noPreempt[me]--
		s.step++
		switchTo(me, nx, -5)
		s.noPreempt[me]++
		c.L.Lock()
	}
}

//go:norace
func kindOf(site int32) uint8 {
	if site >= 0 && int(site) < len(s.siteKinds) {
		return s.siteKinds[site]
	}
	return KindStmt
}

// Yield is inserted before every statement of library code.
//
//go:norace
func Yield(site int32) {
	heartbeat++
	if !s.active {
		if jitter {
			// The library runs goroutines of its own (census): the simulator does
			// not own that schedule. Shake it, so that an outcome which depends on
			// who gets there first shows both faces; such findings are reported
			// with replayable=false.
			jitterState = jitterState*6364136223846793005 + 1442695040888963407
			if jitterState>>59 == 0 {
				runtime.Gosched()
			}
		}
		// (with jitter on, library goroutines of their own reach this code
		// concurrently and a panic in one of them could not be recovered by the
		// harness: no budget then; the worker's wall-clock watchdog remains)
		if b := s.opBudget[MaxTasks]; b != 0 && !jitter {
			s.opCount[MaxTasks]++
			if s.opCount[MaxTasks] > b {
				s.opOver[MaxTasks] = true
				panic(Abort{-1}) // raised again at every yield until the harness disarms
			}
		}
		return
	}
	if s.inSample {
		return
	}
	yieldKind(site, kindOf(site), true)
}

// ArmOpBudget starts counting the yield points of the operation the caller is
// about to run; DisarmOpBudget stops and reports whether the budget was
// exceeded (the operation was then cut off with a panic(Abort)).
//
//go:norace
func ArmOpBudget(n uint64) {
	i := int32(MaxTasks)
	if s.active {
		i = s.cur
	}
	s.opBudget[i], s.opCount[i], s.opOver[i] = n, 0, false
}

//go:norace
func DisarmOpBudget() bool {
	i := int32(MaxTasks)
	if s.active {
		i = s.cur
	}
	over := s.opOver[i]
	s.opBudget[i], s.opCount[i], s.opOver[i] = 0, 0, false
	return over
}

// HarnessYield is a scheduling point issued by harness code (operation
// boundary, inside an io.Writer).
//
//go:norace
func HarnessYield(site int32) {
	if !s.active || s.inSample {
		return
	}
	yieldKind(site, KindOp, true)
}

// OpDone tells the scheduler that the running task completed one operation.
//
//go:norace
func OpDone() {
	if !s.active {
		return
	}
	me := s.cur
	s.ops[me]++
	if s.noPreempt[me] != 0 {
		// the operation returned while the bracket of a statement-level
		// Lock()/Unlock() pair was still open: a lock taken and not released (a
		// leak on an early return), or a panic between the two. The task must not
		// stay unpreemptible for the rest of the run; the leak is counted, and the
		// harness's watchdog uses it to tell "the library blocks forever on a lock
		// it leaked" (a verdict) from a stuck simulator (machinery trouble).
		if s.noPreempt[me] > 0 {
			s.lockLeaks++
			lockLeaksEver++
		}
		s.noPreempt[me] = 0
	}
	if s.burstOn {
		// wake the victim once every other live task has done one more op
		all := true
		for i := int32(0); i < s.n; i++ {
			if i != s.burstTask && s.st[i] == 0 && s.ops[i] <= s.burstOps[i] {
				all = false
			}
		}
		if all {
			wakeStalled()
		}
	}
	yieldKind(-2, KindOp, false)
}

//go:norace
func yieldKind(site int32, kind uint8, allowFault bool) {
	me := s.cur
	s.step++
	s.progress++
	s.yields[me]++
	y := s.yields[me]
	s.pathHash[me] = (s.pathHash[me] ^ uint64(uint32(site))) * 0x100000001b3
	if s.budget != 0 && s.step > s.budget {
		s.overBudget = true
	}
	// faults
	// An abort stays pending until the harness acknowledges it (TakeAborted):
	// code between the fault and the harness may recover() the panic (fmt does
	// for String/Error methods), so it is raised again at every later yield.
	// An injected abort is raised ONCE, like a real panic: deferred functions of
	// the library run normally while it unwinds, and code that recovers it (fmt
	// does, around String/Error methods) carries on. The operation is marked
	// aborted all the same (TakeAborted) and has no result. Only the yield
	// budget is sticky: an operation that does not terminate must be stopped.
	if allowFault && s.opOver[me] && s.noPreempt[me] == 0 {
		panic(Abort{me})
	}
	if s.opBudget[me] != 0 {
		s.opCount[me]++
		if s.opCount[me] > s.opBudget[me] && s.noPreempt[me] == 0 {
			s.opOver[me] = true
			s.aborting[me] = true
			logEv(EvAbort, me, -2, site)
			panic(Abort{me})
		}
	}
	for i := range s.faults {
		f := &s.faults[i]
		if allowFault && f.Task == me && f.Yield == y && s.noPreempt[me] == 0 {
			switch f.Kind {
			case FaultAbort:
				logEv(EvAbort, me, -1, site)
				s.aborting[me] = true
				panic(Abort{me})
			case FaultStall:
				nx := pickOther(me)
				if nx >= 0 {
					s.st[me] = 1
					logEv(EvStall, me, nx, site)
					switchTo(me, nx, site)
					return
				}
			}
		}
	}
	if s.noPreempt[me] > 0 {
		return
	}
	// sampling (reads only; runs in this task's goroutine)
	if s.onSample != nil {
		doSample := false
		if s.strategy == StratExplicit {
			_, doSample = explicitFor(me, y, EvSample)
		} else if s.sampling {
			doSample = next64(&s.sampleRng)&s.sampleMask == 0
		}
		if doSample {
			logEv(EvSample, me, -1, site)
			s.inSample = true
			callSample(me)
			s.inSample = false
		}
	}
	if kind&s.siteMask == 0 && s.strategy != StratExplicit {
		return
	}
	switch s.strategy {
	case StratSequential:
		return
	case StratExplicit:
		if d, ok := explicitFor(me, y, EvSwitch); ok {
			if d.To >= 0 && d.To < s.n && s.st[d.To] == 0 && d.To != me {
				switchTo(me, d.To, site)
			}
		}
	case StratRandom:
		if next64(&s.rng)&s.switchMask != 0 {
			return
		}
		nx := pickOther(me)
		if nx >= 0 {
			switchTo(me, nx, site)
		}
	case StratPCT:
		for s.pctPos < len(s.pct) && s.pct[s.pctPos] <= s.step {
			s.pctPos++
			s.prio[me] = s.lowPrio
			s.lowPrio--
		}
		nx := pickOther(me)
		if nx >= 0 && s.prio[nx] > s.prio[me] {
			switchTo(me, nx, site)
		}
	case StratBurst:
		if !s.burstOn && me == s.burstTask && y == s.burstYield {
			nx := pickOther(me)
			if nx >= 0 {
				s.burstOn = true
				for i := int32(0); i < s.n; i++ {
					s.burstOps[i] = s.ops[i]
				}
				s.st[me] = 1
				logEv(EvStall, me, nx, site)
				switchTo(me, nx, site)
			}
			return
		}
		if kind == KindOp {
			nx := pickOther(me)
			if nx >= 0 && next64(&s.rng)&1 == 0 {
				switchTo(me, nx, site)
			}
		}
	}
}

// callSample runs the harness callback (ordinary instrumented code) in the
// yielding task's goroutine.
//
//go:norace
func callSample(me int32) { s.onSample(me) }

// TakeAborted reports whether an abort fired in the running task since the
// last call, and clears the pending state. The harness calls it at the end of
// every operation: the operation counts as aborted even when the panic was
// swallowed on the way out.
//
//go:norace
func TakeAborted() bool {
	if !s.active {
		return false
	}
	a := s.aborting[s.cur]
	s.aborting[s.cur] = false
	return a
}

// Unowned is called right before every `go` statement of library code. A
// goroutine spawned while a simulation is active runs outside the scheduler's
// control: the run is then not a simulation any more and its verdict is not
// trusted (the harness stops with exit 2). Library code that uses goroutines
// only where no simulated operation goes (the schema loader, say) is fine.
//
//go:norace
func Unowned(site int32) {
	if s.active {
		unownedEvents++
		unownedSite = site
	}
}

var (
	unownedEvents uint64
	unownedSite   int32
)

//go:norace
func UnownedEvents() (uint64, int32) { return unownedEvents, unownedSite }

// AbortNow injects an abort at a point chosen by the harness (inside its
// io.Writer): same sticky semantics as a scheduled abort.
//
//go:norace
func AbortNow() {
	if !s.active {
		return
	}
	me := s.cur
	s.aborting[me] = true
	logEv(EvAbort, me, -3, -3)
	panic(Abort{me})
}

// NoPreempt brackets critical sections of library code (should an edit add
// locks): a task is never parked while the depth is positive.
//
//go:norace
func NoPreempt(d int32) {
	if !s.active {
		return
	}
	s.noPreempt[s.cur] += d
}

// ---- accessors used by the harness after/between runs ----

//go:norace
func Active() bool { return s.active }

//go:norace
func Cur() int32 { return s.cur }

//go:norace
func Progress() uint64 { return s.progress }

// LockLeaks: operations executed by this process so far that returned with a
// statement-level Lock() not matched by its Unlock() (the lock may live in
// package-level state and block a later run).
//
//go:norace
func LockLeaks() int32 { return lockLeaksEver }

var lockLeaksEver int32

// heartbeat counts every yield point library code passes, simulated or not;
// the harness's process-wide watchdog reads it.
var heartbeat uint64

//go:norace
func Heartbeat() uint64 { return heartbeat }

// OpenBrackets: how many statement-level Lock()/Unlock() brackets the current
// task has open (0 outside a simulation).
//
//go:norace
func OpenBrackets() int32 {
	if !s.active {
		return 0
	}
	return s.noPreempt[s.cur]
}

//go:norace
func Steps() uint64 { return s.step }

//go:norace
func Switches() uint64 { return s.switches }

//go:norace
func OverBudget() bool { return s.overBudget }

//go:norace
func TaskYields(t int) uint64 { return s.yields[t] }

//go:norace
func TaskPathHash(t int) uint64 { return s.pathHash[t] }

//go:norace
func Log() ([]Event, int) {
	n := s.nlog
	if n > len(s.log) {
		n = len(s.log)
	}
	out := make([]Event, n)
	copy(out, s.log[:n])
	return out, s.nlog
}
