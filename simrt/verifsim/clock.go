package verifsim

import (
	"os"
	"time"
)

// Simulated clock and randomness. The library reads no clock and draws no
// random numbers today; should an edit make it do so, the instrumenter routes
// time.Now/Since/Until/Sleep and the package-level functions of math/rand
// here, so that the simulator owns those sources too: every value derives from
// the current operation's seed, a replay sees the same values, and the clock
// can be made slow or jumpy ("clock skew and jumps").

// Clock modes.
const (
	ClockNormal = 0 // 1 us .. 1 ms per reading
	ClockFast   = 1 // 1 us per reading: nothing ever takes time
	ClockSlow   = 2 // 0.1 .. 20 ms per reading: a loaded machine
	ClockJumpy  = 3 // mostly small steps, one reading in eight jumps 50 .. 500 ms
)

// ClockCfg configures clock and randomness for one operation.
type ClockCfg struct {
	Seed uint64
	Mode int32
}

type clockState struct {
	cfg   ClockCfg
	rng   uint64
	rnd   uint64
	now   int64 // ns since epoch
	reads uint64
	draws uint64
}

var clk [MaxTasks + 1]clockState

// Clock readings and random draws made outside any operation - package-level
// variables initialised when the process starts, a first-use cache filled
// before the harness installed a stream - belong to the PROCESS. Their stream
// derives from VERIF_PROCSEED, which the harness sets per child process, so
// that "another process" is a decision of the simulation and can be replayed.
var ProcSeed = initProcSeed()

func initProcSeed() uint64 {
	var v uint64
	for _, c := range os.Getenv("VERIF_PROCSEED") {
		if c < '0' || c > '9' {
			break
		}
		v = v*10 + uint64(c-'0')
	}
	for i := range clk {
		k := &clk[i]
		k.cfg = ClockCfg{Seed: v}
		k.rng = Mix(v, 21)
		k.rnd = Mix(v, 22)
		k.now = simEpoch + int64(Mix(v, 23)%uint64(365*24*time.Hour))
	}
	return v
}

// a fixed, arbitrary epoch: 2026-01-01T00:00:00Z
const simEpoch = int64(1767225600) * int64(time.Second)

// BeginClock installs the clock/randomness streams for the operation the
// current task (or the single caller) is about to run.
//
//go:norace
func BeginClock(c ClockCfg) {
	k := &clk[slot()]
	k.cfg = c
	k.rng = Mix(c.Seed, 11)
	k.rnd = Mix(c.Seed, 12)
	k.now = simEpoch + int64(Mix(c.Seed, 13)%uint64(365*24*time.Hour))
	k.reads, k.draws = 0, 0
}

// ClockUse reports how often the operation read the clock / drew randomness.
//
//go:norace
func ClockUse() (reads, draws uint64) {
	k := &clk[slot()]
	return k.reads, k.draws
}

//go:norace
func advance(k *clockState) {
	r := next64(&k.rng)
	var d int64
	switch k.cfg.Mode {
	case ClockFast:
		d = int64(time.Microsecond)
	case ClockSlow:
		d = int64(100*time.Microsecond) + int64(r%uint64(20*time.Millisecond))
	case ClockJumpy:
		if r&7 == 0 {
			d = int64(50*time.Millisecond) + int64((r>>8)%uint64(450*time.Millisecond))
		} else {
			d = int64(time.Microsecond) + int64((r>>8)%uint64(100*time.Microsecond))
		}
	default:
		d = int64(time.Microsecond) + int64(r%uint64(time.Millisecond))
	}
	k.now += d
}

//go:norace
func TimeNow() time.Time {
	ordLock()
	defer ordUnlock()
	k := &clk[slot()]
	k.reads++
	advance(k)
	return time.Unix(0, k.now).UTC()
}

func TimeSince(t time.Time) time.Duration { return TimeNow().Sub(t) }
func TimeUntil(t time.Time) time.Duration { return t.Sub(TimeNow()) }

// TimeSleep advances the simulated clock; nothing really sleeps.
//
//go:norace
func TimeSleep(d time.Duration) {
	ordLock()
	k := &clk[slot()]
	if d > 0 {
		k.now += int64(d)
	}
	ordUnlock()
	Yield(-4)
}

//go:norace
func draw() uint64 {
	ordLock()
	defer ordUnlock()
	k := &clk[slot()]
	k.draws++
	return next64(&k.rnd)
}

func RandUint64() uint64   { return draw() }
func RandUint32() uint32   { return uint32(draw() >> 32) }
func RandInt63() int64     { return int64(draw() >> 1) }
func RandInt31() int32     { return int32(draw() >> 33) }
func RandInt() int         { return int(uint(draw() >> 1)) }
func RandFloat64() float64 { return float64(draw()>>11) / (1 << 53) }
func RandFloat32() float32 { return float32(draw()>>40) / (1 << 24) }

func RandIntn(n int) int {
	if n <= 0 {
		panic("invalid argument to Intn")
	}
	return int(draw() % uint64(n))
}

func RandInt63n(n int64) int64 {
	if n <= 0 {
		panic("invalid argument to Int63n")
	}
	return int64(draw() % uint64(n))
}

func RandInt31n(n int32) int32 {
	if n <= 0 {
		panic("invalid argument to Int31n")
	}
	return int32(draw() % uint64(n))
}

func RandPerm(n int) []int {
	m := make([]int, n)
	for i := 0; i < n; i++ {
		j := RandIntn(i + 1)
		m[i] = m[j]
		m[j] = i
	}
	return m
}

func RandShuffle(n int, swap func(i, j int)) {
	for i := n - 1; i > 0; i-- {
		j := RandIntn(i + 1)
		swap(i, j)
	}
}
