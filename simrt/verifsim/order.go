package verifsim

import (
	"cmp"
	"fmt"
	"iter"
	"reflect"
	"slices"
	"sync"
)

// ordMu serialises the seam's bookkeeping ONLY when the library runs
// goroutines of its own (jitter mode, C10 only). It is never taken otherwise:
// in C11 a mutex here would order the tasks for the race detector.
var ordMu sync.Mutex

//go:norace
func ordLock() {
	if jitter {
		ordMu.Lock()
	}
}

//go:norace
func ordUnlock() {
	if jitter {
		ordMu.Unlock()
	}
}

// Map-order seam. Every `range m` over a map in library code is rewritten to
// `range verifsim_.Ordered(m, site)`; the order in which keys are visited is
// decided here: canonical (sorted), or a permutation drawn from the current
// operation's order stream, or an explicit per-visit rule when replaying.

const (
	OrdCanonical = 0
	OrdReverse   = 1
	OrdRotate    = 2
	OrdSwap      = 3
	OrdShuffle   = 4
	OrdSwapPair  = 5 // swap canonical positions Arg>>32 and Arg&0xffffffff
	OrdSwapNamed = 6 // swap the keys rendered as KeyA and KeyB (replay files)
)

// OrderRule fixes the permutation of one map-range execution ("visit") of an
// operation; visits are numbered from 0 in execution order within the operation.
type OrderRule struct {
	Site int32 // site id; -1 matches any site
	Nth  int32 // n-th execution of that site within the operation (from 0)
	Mode int32
	Arg  uint64
	KeyA string
	KeyB string
}

// OrderCfg configures the seam for one operation of one task.
type OrderCfg struct {
	CaptureKeys bool     // record canonical key names of every visit (minimiser)
	Seed        uint64   // stream seed (exploration)
	Weights     [5]uint8 // relative weight of modes 0..4 (exploration); all zero = canonical
	SiteOnly    []int32  // if non-empty: only these sites are perturbed
	Explicit    bool     // replay: use Rules, everything else canonical
	Rules       []OrderRule
}

// Visit records what happened at one map-range execution.
type Visit struct {
	Site      int32
	Nth       int32 // n-th execution of Site within the operation
	N         int32
	Mode      int32
	Arg       uint64
	KeyA      string
	KeyB      string
	Effective bool
	Keys      []string // canonical key names, only when CaptureKeys
}

const maxVisits = 4096

type orderState struct {
	cfg     OrderCfg
	rng     uint64
	wsum    uint32
	nvisit  int32
	visits  [maxVisits]Visit
	dropped int32
}

var ord [MaxTasks + 1]orderState

//go:norace
func slot() int32 {
	if s.active {
		return s.cur
	}
	return MaxTasks
}

// BeginOp installs the order configuration for the operation the current task
// (or, outside a simulation, the single caller) is about to run.
//
//go:norace
func BeginOp(c OrderCfg) {
	ordLock()
	defer ordUnlock()
	o := &ord[slot()]
	o.cfg = c
	o.rng = c.Seed
	o.wsum = 0
	for _, w := range c.Weights {
		o.wsum += uint32(w)
	}
	o.nvisit = 0
	o.dropped = 0
}

// EndOp returns the visits recorded since BeginOp and resets to canonical.
//
//go:norace
func EndOp() []Visit {
	ordLock()
	defer ordUnlock()
	o := &ord[slot()]
	n := o.nvisit
	if n > maxVisits {
		n = maxVisits
	}
	out := make([]Visit, n)
	copy(out, o.visits[:n])
	o.cfg = OrderCfg{}
	o.wsum = 0
	o.nvisit = 0
	return out
}

// decide returns the permutation rule for the next visit at site with n keys.
//
//go:norace
func decide(site int32, n int) (OrderRule, int32) {
	ordLock()
	defer ordUnlock()
	o := &ord[slot()]
	v := o.nvisit
	o.nvisit++
	nth := int32(0)
	lim := v
	if lim > maxVisits {
		lim = maxVisits
	}
	for i := int32(0); i < lim; i++ {
		if o.visits[i].Site == site {
			nth++
		}
	}
	r := OrderRule{Site: site, Nth: nth}
	if o.cfg.Explicit {
		for i := range o.cfg.Rules {
			x := &o.cfg.Rules[i]
			if (x.Site == site || x.Site == -1) && x.Nth == nth {
				r.Mode, r.Arg, r.KeyA, r.KeyB = x.Mode, x.Arg, x.KeyA, x.KeyB
				break
			}
		}
	} else if o.wsum > 0 {
		// The decision for the nth visit of a site depends on (operation seed,
		// site, n) only - not on how many other map ranges ran before it. Two
		// executions of one operation that differ in the visits of some OTHER
		// site (a private memo that copies its table by ranging over it on a
		// miss, and hits or misses depending on what other tasks did) must give
		// the sites they share the same orders, or a legal order-dependence of
		// the library would look like interference between tasks (C11's
		// solo-vs-concurrent comparison; it did once: DESIGN.md section 11).
		k := Mix(o.cfg.Seed, uint64(uint32(site))+1)
		r1 := Mix(k, uint64(nth)<<1|1)
		r2 := Mix(k, uint64(nth)<<1)
		perturb := true
		if len(o.cfg.SiteOnly) > 0 {
			perturb = false
			for _, x := range o.cfg.SiteOnly {
				if x == site {
					perturb = true
				}
			}
		}
		if perturb {
			pick := uint32(r1 % uint64(o.wsum))
			for m, w := range o.cfg.Weights {
				if pick < uint32(w) {
					r.Mode = int32(m)
					break
				}
				pick -= uint32(w)
			}
			r.Arg = r2
		}
	}
	return r, v
}

//go:norace
func capture() bool { return ord[slot()].cfg.CaptureKeys }

//go:norace
func record(v int32, r OrderRule, n int, eff bool, keys []string) {
	ordLock()
	defer ordUnlock()
	o := &ord[slot()]
	if v < maxVisits {
		o.visits[v] = Visit{r.Site, r.Nth, int32(n), r.Mode, r.Arg, r.KeyA, r.KeyB, eff, keys}
	} else {
		o.dropped++
	}
}

// permute rearranges idx (initially 0..n-1, the canonical order) per rule.
func permute(idx []int, r OrderRule, name func(int) string) {
	n := len(idx)
	if n < 2 {
		return
	}
	switch r.Mode {
	case OrdReverse:
		slices.Reverse(idx)
	case OrdRotate:
		k := int(r.Arg % uint64(n))
		tmp := append(append([]int{}, idx[k:]...), idx[:k]...)
		copy(idx, tmp)
	case OrdSwap:
		k := int(r.Arg % uint64(n-1))
		idx[k], idx[k+1] = idx[k+1], idx[k]
	case OrdShuffle:
		x := r.Arg
		for i := n - 1; i > 0; i-- {
			j := int(next64(&x) % uint64(i+1))
			idx[i], idx[j] = idx[j], idx[i]
		}
	case OrdSwapPair:
		a, b := int(r.Arg>>32), int(r.Arg&0xffffffff)
		if a < n && b < n {
			idx[a], idx[b] = idx[b], idx[a]
		}
	case OrdSwapNamed:
		a, b := -1, -1
		for i := 0; i < n; i++ {
			switch name(i) {
			case r.KeyA:
				a = i
			case r.KeyB:
				b = i
			}
		}
		if a >= 0 && b >= 0 {
			idx[a], idx[b] = idx[b], idx[a]
		}
	}
}

func orderFor(site int32, n int, name func(int) string) []int {
	r, v := decide(site, n)
	idx := make([]int, n)
	for i := range idx {
		idx[i] = i
	}
	permute(idx, r, name)
	eff := false
	for i, x := range idx {
		if i != x {
			eff = true
			break
		}
	}
	var keys []string
	if capture() {
		keys = make([]string, n)
		for i := range keys {
			keys[i] = name(i)
		}
	}
	record(v, r, n, eff, keys)
	return idx
}

func keyName[K any](k K) string {
	switch x := any(k).(type) {
	case string:
		return x
	}
	return fmt.Sprint(k)
}

// Ordered iterates m in simulator-chosen order (range-over-func, go1.23).
func Ordered[M ~map[K]V, K cmp.Ordered, V any](m M, site int32) iter.Seq2[K, V] {
	return func(yield func(K, V) bool) {
		ks := make([]K, 0, len(m))
		for k := range m {
			ks = append(ks, k)
		}
		slices.Sort(ks)
		for _, i := range orderFor(site, len(ks), func(i int) string { return keyName(ks[i]) }) {
			k := ks[i]
			v, ok := m[k]
			if !ok {
				continue
			}
			if !yield(k, v) {
				return
			}
		}
	}
}

// OrderedAny is the fallback for key types that are comparable but not
// cmp.Ordered: canonical order is by fmt %v rendering (weakly controlled).
func OrderedAny[M ~map[K]V, K comparable, V any](m M, site int32) iter.Seq2[K, V] {
	return func(yield func(K, V) bool) {
		ks := make([]K, 0, len(m))
		for k := range m {
			ks = append(ks, k)
		}
		slices.SortStableFunc(ks, func(a, b K) int { return cmp.Compare(fmt.Sprintf("%#v", a), fmt.Sprintf("%#v", b)) })
		for _, i := range orderFor(site, len(ks), func(i int) string { return keyName(ks[i]) }) {
			k := ks[i]
			v, ok := m[k]
			if !ok {
				continue
			}
			if !yield(k, v) {
				return
			}
		}
	}
}

// OrderedReflectKeys reorders the result of reflect.Value.MapKeys().
func OrderedReflectKeys(keys []reflect.Value, site int32) []reflect.Value {
	slices.SortStableFunc(keys, func(a, b reflect.Value) int {
		if a.Kind() == reflect.String && b.Kind() == reflect.String {
			return cmp.Compare(a.String(), b.String())
		}
		return cmp.Compare(fmt.Sprintf("%#v", a.Interface()), fmt.Sprintf("%#v", b.Interface()))
	})
	out := make([]reflect.Value, len(keys))
	for j, i := range orderFor(site, len(keys), func(i int) string { return keyName(keys[i].Interface()) }) {
		out[j] = keys[i]
	}
	return out
}
