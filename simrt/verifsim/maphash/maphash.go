// Package maphash stands in for hash/maphash in instrumented copies of the
// library: the instrumenter rewrites the import path. The real package draws
// its seeds from the runtime's per-process random state and hashes with
// per-process keys, so nothing about it can be replayed; this one has the same
// API, takes every seed from the simulator's randomness stream of the current
// operation (or of the process, outside operations) and hashes with a fixed
// function, so that one VERIF_SEED is one execution.
package maphash

import (
	"fmt"

	verifsim "github.com/vektah/gqlparser/v2/verifsim"
)

// Seed mirrors hash/maphash.Seed: the zero value is not usable.
type Seed struct{ s uint64 }

// MakeSeed draws a seed from the simulated randomness.
func MakeSeed() Seed {
	for {
		if v := verifsim.RandUint64(); v != 0 {
			return Seed{v}
		}
	}
}

// Hash mirrors hash/maphash.Hash.
type Hash struct {
	seed  Seed
	state uint64
	n     int
	used  bool
}

func (h *Hash) init() {
	if h.seed.s == 0 {
		h.seed = MakeSeed()
	}
	if !h.used {
		h.state = h.seed.s ^ 0xcbf29ce484222325
		h.used = true
	}
}

func mixByte(st uint64, c byte) uint64 { return (st ^ uint64(c)) * 0x100000001b3 }

func finish(st uint64, n int) uint64 {
	z := st + uint64(n)*0x9e3779b97f4a7c15
	z = (z ^ (z >> 30)) * 0xbf58476d1ce4e5b9
	z = (z ^ (z >> 27)) * 0x94d049bb133111eb
	return z ^ (z >> 31)
}

func (h *Hash) Write(b []byte) (int, error) {
	h.init()
	for _, c := range b {
		h.state = mixByte(h.state, c)
	}
	h.n += len(b)
	return len(b), nil
}

func (h *Hash) WriteString(s string) (int, error) {
	h.init()
	for i := 0; i < len(s); i++ {
		h.state = mixByte(h.state, s[i])
	}
	h.n += len(s)
	return len(s), nil
}

func (h *Hash) WriteByte(c byte) error {
	h.init()
	h.state = mixByte(h.state, c)
	h.n++
	return nil
}

func (h *Hash) Sum64() uint64 {
	h.init()
	return finish(h.state, h.n)
}

func (h *Hash) Sum(b []byte) []byte {
	x := h.Sum64()
	return append(b, byte(x>>0), byte(x>>8), byte(x>>16), byte(x>>24), byte(x>>32), byte(x>>40), byte(x>>48), byte(x>>56))
}

func (h *Hash) Seed() Seed {
	h.init()
	return h.seed
}

func (h *Hash) SetSeed(seed Seed) {
	if seed.s == 0 {
		panic("maphash: use of uninitialized Seed")
	}
	h.seed = seed
	h.used = false
	h.n = 0
	h.init()
}

func (h *Hash) Reset() {
	h.init()
	h.used = false
	h.n = 0
	h.init()
}

func (h *Hash) Size() int      { return 8 }
func (h *Hash) BlockSize() int { return 128 }

// String mirrors hash/maphash.String.
func String(seed Seed, s string) uint64 {
	if seed.s == 0 {
		panic("maphash: use of uninitialized Seed")
	}
	var h Hash
	h.SetSeed(seed)
	h.WriteString(s)
	return h.Sum64()
}

// Bytes mirrors hash/maphash.Bytes.
func Bytes(seed Seed, b []byte) uint64 {
	if seed.s == 0 {
		panic("maphash: use of uninitialized Seed")
	}
	var h Hash
	h.SetSeed(seed)
	h.Write(b)
	return h.Sum64()
}

// Comparable mirrors hash/maphash.Comparable (equal values hash equally; the
// value's printed form, which for pointers is their address, is what is hashed).
func Comparable[T comparable](seed Seed, v T) uint64 {
	return String(seed, fmt.Sprintf("%T\x00%#v", v, v))
}

// WriteComparable mirrors hash/maphash.WriteComparable.
func WriteComparable[T comparable](h *Hash, x T) {
	h.WriteString(fmt.Sprintf("%T\x00%#v", x, x))
}
